/-
  Progress of relief, head series: the counterpart of `CoordRelief` for the head-series thresholds.
-/
import Kvass.Proofs.CoordRelief

namespace Kvass.Coord
open Kvass Kvass.Spec

/-- a head-relief move has been logged -/
def P2 (c : CS) : Prop := ∃ pl ∈ c.log, pl.kind = 2

theorem p2_presA (o : Opt) (glob : Hash → St) : PresA o glob P2 where
  crash := fun c hc => hc
  transfer := by
    intro k c i j h ⟨pl, hm, hk⟩ _
    unfold transfer
    split
    · split
      · exact ⟨pl, hm, hk⟩
      · exact ⟨pl, List.mem_append_left _ hm, hk⟩
    · exact ⟨pl, hm, hk⟩
  place := by
    intro c j h ⟨pl, hm, hk⟩ _
    unfold place
    split
    · first | exact ⟨pl, List.mem_append_left _ hm, hk⟩ | exact ⟨pl, hm, hk⟩
    · first | exact ⟨pl, hm, hk⟩ | exact ⟨pl, List.mem_append_left _ hm, hk⟩

/-- shard `i` holds no settled target that alone exceeds the head-series limit -/
def NBh (o : Opt) (c : CS) (i : Nat) : Prop :=
  ∀ s, c.shards[i]? = some s → ∀ h tar, s.scraping.get h = some tar → Gen.ahSkip tar = true ∨ Gen.ahTooBig o tar = false

/-- the relief loop of any shard: nothing moved and the state is as before, or a move is logged -/
theorem ahLoop_same_or_moved (o : Opt) (i : Nat) (exp : Int) (_hch0 : True) :
    ∀ (hs : List Hash) (c : CS) (total : Int), (∀ s, c.shards[i]? = some s → s.changeable = true) →
      ((ahLoop o i exp hs c total).1 = c ∧ ((ahLoop o i exp hs c total).2.2 = false → (ahLoop o i exp hs c total).2.1 = total)) ∨
      P2 (ahLoop o i exp hs c total).1 := by
  intro hs
  induction hs with
  | nil => intro c total _; left; simp [ahLoop]
  | cons h hs ih =>
    intro c total hsrc
    unfold ahLoop
    split
    · left; exact ⟨rfl, fun _ => rfl⟩
    · split
      · left; exact ⟨rfl, fun _ => rfl⟩
      · rename_i s hs'
        split
        · exact ih c total hsrc
        · rename_i tar htar
          split
          · exact ih c total hsrc
          · split
            · left; exact ⟨rfl, fun hf => by cases hf⟩
            · split
              · rename_i j hj
                right
                obtain ⟨t, ht, _, hji, _⟩ := firstDst_spec hj
                have hp1 : P2 (transfer 2 c i j h) := by
                  rw [transfer_eq hs' ht htar]
                  exact ⟨tPl 2 h i j t tar, by simp, rfl⟩
                have hsrc' := transfer_src_changeable 2 c i j h hsrc
                rcases ih (transfer 2 c i j h) (Gen.ahSub total tar) hsrc' with ⟨e, _⟩ | hp
                · rw [e]; exact hp1
                · exact hp
              · exact ih c total hsrc

/-- … and with no oversized settled target on the shard the loop is never aborted -/
theorem ahLoop_not_aborted (o : Opt) (i : Nat) (exp : Int) :
    ∀ (hs : List Hash) (c : CS) (total : Int), NBh o c i → (ahLoop o i exp hs c total).2.2 = false := by
  intro hs
  induction hs with
  | nil => intro c total _; simp [ahLoop]
  | cons h hs ih =>
    intro c total hnb
    unfold ahLoop
    split
    · rfl
    · split
      · rfl
      · rename_i s hs'
        split
        · exact ih c total hnb
        · rename_i tar htar
          split
          · exact ih c total hnb
          · rename_i hskip
            split
            · rename_i hbig
              rcases hnb s hs' h tar htar with e | e
              · exact absurd e hskip
              · rw [e] at hbig; cases hbig
            · split
              · rename_i j hj
                obtain ⟨t, ht, _, hji, _⟩ := firstDst_spec hj
                apply ih
                intro s1 hs1 h' tar' hg'
                rw [transfer_shard_at hs' ht htar hji] at hs1
                simp only [if_true, Option.some.injEq] at hs1
                subst hs1
                unfold tSrc at hg'
                simp only at hg'
                rw [AL.get_set] at hg'
                split at hg'
                · simp only [Option.some.injEq] at hg'
                  subst hg'
                  left
                  simp [Gen.ahSkip]
                · exact hnb s hs' h' tar' hg'
              · exact ih c total hnb

/-- one overloaded shard: space is asked for (and nothing has changed), or a move is logged -/
theorem allevHeadShard_progress (o : Opt) (exp : Int) (order : List Hash) (c : CS) (i : Nat) (s : SI)
    (hs : c.shards[i]? = some s) (hch : s.changeable = true) (hnb : NBh o c i) (hload : exp < loadHead s) :
    (0 < (allevHeadShard o exp order c i).2 ∧ (allevHeadShard o exp order c i).1 = c) ∨
    P2 (allevHeadShard o exp order c i).1 := by
  unfold allevHeadShard
  rw [hs]
  simp only
  have hdone : Gen.ahDone (loadHead s) exp = false := by
    unfold Gen.ahDone; simp; omega
  rw [hdone]
  simp only [Bool.false_eq_true, if_false]
  have hsrc : ∀ s', c.shards[i]? = some s' → s'.changeable = true := by
    intro s' hs'; rw [hs] at hs'; cases hs'; exact hch
  have h1 := ahLoop_same_or_moved o i exp trivial order c (loadHead s) hsrc
  have h2 := ahLoop_not_aborted o i exp order c (loadHead s) hnb
  generalize ahLoop o i exp order c (loadHead s) = r at h1 h2
  obtain ⟨c', total', ab⟩ := r
  simp only at h1 h2 ⊢
  subst h2
  simp only [Bool.false_eq_true, if_false]
  rcases h1 with ⟨e, ht⟩ | hp
  · left
    have := ht rfl
    subst this; subst e
    have hneed : Gen.ahNeed (loadHead s) exp = true := by unfold Gen.ahNeed; simp; omega
    rw [hneed]
    simp only [if_true]
    exact ⟨by unfold Gen.ahAmount; omega, by first | rfl | trivial⟩
  · right
    split <;> exact hp

/-- any shard: nothing has changed, or a move is logged; the need is not negative -/
theorem allevHeadShard_same_or_moved (o : Opt) (exp : Int) (order : List Hash) (c : CS) (i : Nat)
    (hsrc : ∀ s, c.shards[i]? = some s → s.changeable = true) :
    (allevHeadShard o exp order c i).1 = c ∨ P2 (allevHeadShard o exp order c i).1 := by
  unfold allevHeadShard
  split
  · exact Or.inl rfl
  · simp only
    split
    · exact Or.inl rfl
    · have h1 := ahLoop_same_or_moved o i exp trivial order c (loadHead ‹SI›) hsrc
      generalize ahLoop o i exp order c (loadHead ‹SI›) = r at h1
      obtain ⟨c', total', ab⟩ := r
      simp only at h1 ⊢
      rcases h1 with ⟨e, _⟩ | hp
      · left; split
        · exact e
        · split <;> exact e
      · right; split
        · exact hp
        · split <;> exact hp


/-- the process phase as a whole: the state is as before, or a move is logged -/
theorem allevProcAll_same_or_moved (swr : Swr) (o : Opt) (orders : List (List Hash)) :
    ∀ (is : List Nat) (c : CS) (need : Int),
      (allevProcAll swr o orders is c need).1 = c ∨ P1 (allevProcAll swr o orders is c need).1 := by
  intro is
  induction is with
  | nil => intro c need; left; simp [allevProcAll]
  | cons k is ih =>
    intro c need
    have hp := (p1_presA o (fun _ => default)).toPres
    unfold allevProcAll
    split
    · exact ih c need
    · rename_i sk hsk
      split
      · rename_i hcond
        simp only [Bool.and_eq_true] at hcond
        have hsrc : ∀ s', c.shards[k]? = some s' → s'.changeable = true := by
          intro s' hs'; rw [hsk] at hs'; cases hs'; exact hcond.1
        rcases allevProcShard_same_or_moved o (Gen.procExpect swr o) (orderFor orders k) c k hsrc with e | hp1
        · generalize allevProcShard o (Gen.procExpect swr o) (orderFor orders k) c k = r at e
          obtain ⟨c', n⟩ := r
          simp only at e ⊢
          subst e
          exact ih c' (need + n)
        · right
          generalize allevProcShard o (Gen.procExpect swr o) (orderFor orders k) c k = r at hp1
          obtain ⟨c', n⟩ := r
          simp only at hp1 ⊢
          exact (allevProcAllX (hp.toX (fun _ => True) (fun _ => True) True) swr (fun _ _ => trivial) orders is c' (need + n) hp1)
      · exact ih c need

theorem allevHeadAll_need_mono (swr : Swr) (o : Opt) (orders : List (List Hash)) :
    ∀ (is : List Nat) (c : CS) (need : Int), need ≤ (allevHeadAll swr o orders is c need).2 := by
  intro is
  induction is with
  | nil => intro c need; simp [allevHeadAll]
  | cons i is ih =>
    intro c need
    unfold allevHeadAll
    split
    · exact ih c need
    · split
      · split
        · rename_i ex _
          have := allevHeadShard_need_nonneg o (Gen.headExpect swr o ex) (orderFor orders i) c i
          generalize allevHeadShard o (Gen.headExpect swr o ex) (orderFor orders i) c i = r at this
          obtain ⟨c', n⟩ := r
          simp only at this ⊢
          have := ih c' (need + n)
          omega
        · exact ih c need
      · exact ih c need

/-- all shards in turn: a shard over a head threshold with a settled head load above the expected one
    makes the need grow, or a move is logged -/
theorem allevHeadAll_progress (swr : Swr) (o : Opt) (hh : o.maxHead ≠ 0) (orders : List (List Hash)) (i : Nat) :
    ∀ (is : List Nat) (c : CS) (need : Int) (s : SI) (ex : Rate), i ∈ is → c.shards[i]? = some s → s.changeable = true →
      headThreshold swr o s.rt = some ex → NBh o c i → Gen.headExpect swr o ex < loadHead s →
      need < (allevHeadAll swr o orders is c need).2 ∨ P2 (allevHeadAll swr o orders is c need).1 := by
  intro is
  induction is with
  | nil => intro c need s ex hm; cases hm
  | cons k is ih =>
    intro c need s ex hm hs hch htr hnb hload
    have hp := (p2_presA o (fun _ => default)).toPres
    unfold allevHeadAll
    by_cases hki : k = i
    · subst hki
      rw [hs]
      simp only [hch, if_true, htr]
      rcases allevHeadShard_progress o (Gen.headExpect swr o ex) (orderFor orders k) c k s hs hch hnb hload with ⟨hn, _⟩ | hp2
      · left
        generalize allevHeadShard o (Gen.headExpect swr o ex) (orderFor orders k) c k = r at hn
        obtain ⟨c', n⟩ := r
        simp only at hn ⊢
        have := allevHeadAll_need_mono swr o orders is c' (need + n)
        omega
      · right
        generalize allevHeadShard o (Gen.headExpect swr o ex) (orderFor orders k) c k = r at hp2
        obtain ⟨c', n⟩ := r
        simp only at hp2 ⊢
        exact (allevHeadAllX (hp.toX (fun _ => True) (fun _ => True) True) hh swr (fun _ _ _ => trivial) orders is c' (need + n) hp2)
    · have him : i ∈ is := by
        rcases List.mem_cons.mp hm with e | e
        · exact absurd e.symm hki
        · exact e
      split
      · exact ih c need s ex him hs hch htr hnb hload
      · rename_i sk hsk
        split
        · rename_i hchk
          split
          · rename_i exk _
            have hsrc : ∀ s', c.shards[k]? = some s' → s'.changeable = true := by
              intro s' hs'; rw [hsk] at hs'; cases hs'; exact hchk
            have hnn := allevHeadShard_need_nonneg o (Gen.headExpect swr o exk) (orderFor orders k) c k
            rcases allevHeadShard_same_or_moved o (Gen.headExpect swr o exk) (orderFor orders k) c k hsrc with e | hp2
            · generalize allevHeadShard o (Gen.headExpect swr o exk) (orderFor orders k) c k = r at e hnn
              obtain ⟨c', n⟩ := r
              simp only at e hnn ⊢
              subst e
              rcases ih c' (need + n) s ex him hs hch htr hnb hload with h1 | h1
              · left; omega
              · exact Or.inr h1
            · right
              generalize allevHeadShard o (Gen.headExpect swr o exk) (orderFor orders k) c k = r at hp2
              obtain ⟨c', n⟩ := r
              simp only at hp2 ⊢
              exact (allevHeadAllX (hp.toX (fun _ => True) (fun _ => True) True) hh swr (fun _ _ _ => trivial) orders is c' (need + n) hp2)
          · exact ih c need s ex him hs hch htr hnb hload
        · exact ih c need s ex him hs hch htr hnb hload

theorem alleviate_progress_head (swr : Swr) (o : Opt) (sc : Sched) (c : CS) (i : Nat) (s : SI) (ex : Rate)
    (hen : Gen.allevDisabled o = false) (hh : o.maxHead ≠ 0) (hs : c.shards[i]? = some s) (hch : s.changeable = true)
    (htr : headThreshold swr o s.rt = some ex) (hnb : NBh o c i) (hload : Gen.headExpect swr o ex < loadHead s) :
    0 < (alleviate swr o sc c).2.head ∨ P1 (alleviate swr o sc c).1 ∨ P2 (alleviate swr o sc c).1 := by
  have hp1 := (p1_presA o (fun _ => default)).toPres
  have him : i ∈ List.range c.shards.length := by
    rw [List.mem_range]
    exact (List.getElem?_eq_some_iff.mp hs).1
  have hhe : Gen.headEnabled o = true := (Sites.headEnabled_iff o).mpr hh
  unfold alleviate
  simp only [hen, Bool.false_eq_true, if_false, hhe, if_true]
  have h1 := allevProcAll_same_or_moved swr o sc.allevProc (List.range c.shards.length) c 0
  generalize allevProcAll swr o sc.allevProc (List.range c.shards.length) c 0 = r1 at h1
  obtain ⟨c1, np⟩ := r1
  simp only at h1 ⊢
  rcases h1 with e | hp
  · subst e
    have h2 := allevHeadAll_progress swr o hh sc.allevHead i (List.range c1.shards.length) c1 0 s ex him hs hch htr hnb hload
    generalize allevHeadAll swr o sc.allevHead (List.range c1.shards.length) c1 0 = r2 at h2
    obtain ⟨c2, nh⟩ := r2
    simp only at h2 ⊢
    rcases h2 with h2 | h2
    · exact Or.inl h2
    · exact Or.inr (Or.inr h2)
  · right; left
    have := allevHeadAllX (hp1.toX (fun _ => True) (fun _ => True) True) hh swr (fun _ _ _ => trivial) sc.allevHead
      (List.range c.shards.length) c1 0 hp
    generalize allevHeadAll swr o sc.allevHead (List.range c.shards.length) c1 0 = r2 at this
    obtain ⟨c2, nh⟩ := r2
    exact this

/-- **progress of relief (head series)**: as `relief_progress`, for a shard over one of the
    head-series thresholds whose settled head load exceeds the expected one: the cycle logs a relief
    move (process or head) or its last request asks for more shards than there are. -/
theorem relief_progress_head (swr : Swr) (sc : Sched) (inp : Input)
    (hsync : ∀ p ∈ inp.probes, inSync p = true)
    (hmp : 0 < inp.opt.maxProc) (hmh : 0 < inp.opt.maxHead)
    (hnn : ∀ k, 0 ≤ (globalOf (infos0 inp) inp.explore k).series ∧ 0 ≤ (globalOf (infos0 inp) inp.explore k).total)
    (hen : Gen.allevDisabled inp.opt = false)
    (hne : stopsEarly inp = false) (hnc : (cycle swr sc inp).crashed = false)
    (hmax : (inp.probes.length : Int) < inp.opt.maxShard)
    (i : Nat) (s : SI) (ex : Rate) (hs : (startCS inp).shards[i]? = some s) (hch : s.changeable = true)
    (htr : headThreshold swr inp.opt s.rt = some ex) (hnb : NBh inp.opt (startCS inp) i)
    (hload : Gen.headExpect swr inp.opt ex < loadHead s) :
    (∃ pl ∈ (cycle swr sc inp).log, pl.kind = 1 ∨ pl.kind = 2) ∨
    ∃ k, (cycle swr sc inp).scales.getLast? = some k ∧ (inp.probes.length : Int) < k := by
  have heq := cycle_eq_finish swr sc inp hne
  have hprog := alleviate_progress_head swr inp.opt sc (startCS inp) i s ex hen (by omega) hs hch htr hnb hload
  have hn1 := alleviate_need_nonneg swr inp.opt sc (startCS inp)
  generalize hc2 : (alleviate swr inp.opt sc (startCS inp)) = r2 at heq hprog hn1
  obtain ⟨c2, need1⟩ := r2
  simp only at heq hprog hn1
  have hassign : assign inp.opt inp.active (globalOf (infos0 inp) inp.explore) sc c2 =
      assignLoop inp.opt (scrapingSetOf c2.shards) (globalOf (infos0 inp) inp.explore)
        (uniq (sc.assign.filter inp.active.contains)) c2 sc.picks {} := rfl
  have hp31 : P1 c2 → P1 (assign inp.opt inp.active (globalOf (infos0 inp) inp.explore) sc c2).1 :=
    fun h => assign_pres (p1_presA inp.opt _) inp.active sc c2 h
  have hp32 : P2 c2 → P2 (assign inp.opt inp.active (globalOf (infos0 inp) inp.explore) sc c2).1 :=
    fun h => assign_pres (p2_presA inp.opt _) inp.active sc c2 h
  generalize hc3 : assign inp.opt inp.active (globalOf (infos0 inp) inp.explore) sc c2 = r3 at heq hassign hp31 hp32
  obtain ⟨c3, picks, need2⟩ := r3
  simp only at heq hp31 hp32
  rw [heq] at hnc ⊢
  have hloop := assignLoop_need (o := inp.opt) (scr := scrapingSetOf c2.shards) hnn
    (uniq (sc.assign.filter inp.active.contains)) c2 sc.picks {} (uniq_nodup _) (keysIn_init c2 _)
  rw [← hassign] at hloop
  obtain ⟨hm1, hm2, _⟩ := hloop
  simp only at hm1 hm2
  rcases hprog with hpos | hp1 | hp2
  · right
    have hup : Gen.needUp (Gen.spaceIsZero (spaceAdd need1 need2)) = true := by
      rw [Sites.needUp_iff]
      cases hz : Gen.spaceIsZero (spaceAdd need1 need2) with
      | false => rfl
      | true =>
        rw [Sites.spaceIsZero_iff] at hz
        simp only [spaceAdd, Gen.spaceAddHead, Gen.spaceAddProc] at hz
        have e1 : (0 : Int) ≤ need2.head := hm1
        omega
    obtain ⟨hfin, hscales⟩ := finish_up sc inp _ c3 picks _ hnc hup
    refine ⟨clamp inp.opt (tryScaleUp inp.opt c3.shards (spaceAdd need1 need2)), by rw [hscales]; simp, ?_⟩
    have hfl := final_length' swr sc inp hne
    rw [heq, hfin] at hfl
    have hall : nChangeable c3.shards = c3.shards.length := by
      have := final_all_changeable swr sc inp hne hsync
      rw [heq, hfin] at this; exact this
    have hnp : 0 ≤ (spaceAdd need1 need2).proc := by
      simp only [spaceAdd, Gen.spaceAddProc]
      have e2 : (0 : Int) ≤ need2.proc := hm2
      have := hn1.2
      omega
    have hnh : 0 ≤ (spaceAdd need1 need2).head := by
      simp only [spaceAdd, Gen.spaceAddHead]
      have e1 : (0 : Int) ≤ need2.head := hm1
      omega
    have := tryScaleUp_exceeds inp.opt c3.shards (spaceAdd need1 need2) hall hnp hnh hmp (by omega)
    apply clamp_exceeds
    · rw [← hfl]; exact this
    · exact hmax
  · left
    obtain ⟨pl, hm, hk⟩ := finish_pres sc inp _ c3 picks (spaceAdd need1 need2) (p1_presA inp.opt (fun _ => default)).toPres (hp31 hp1)
      (fun c c' e h => by obtain ⟨pl, hm, hk⟩ := h; exact ⟨pl, by rw [e]; exact hm, hk⟩) hnc
    exact ⟨pl, hm, Or.inl hk⟩
  · left
    obtain ⟨pl, hm, hk⟩ := finish_pres sc inp _ c3 picks (spaceAdd need1 need2) (p2_presA inp.opt (fun _ => default)).toPres (hp32 hp2)
      (fun c c' e h => by obtain ⟨pl, hm, hk⟩ := h; exact ⟨pl, by rw [e]; exact hm, hk⟩) hnc
    exact ⟨pl, hm, Or.inr hk⟩

end Kvass.Coord
