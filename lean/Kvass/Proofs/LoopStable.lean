/-
  The closed loop in a quiet state: one fault-free cycle of `Loop.cycleStep` leaves the size of the
  StatefulSet, the discovered set and every running sidecar's assignment, statuses and idle time
  as they are (only a sidecar that holds nothing is sent its empty assignment once more).
-/
import Kvass.Model.Loop
import Kvass.Proofs.CoordQuiet

namespace Kvass.Loop
open Kvass Kvass.Coord Kvass.Spec

theorem probeOf_inSync (env : Env) (sh : Shard) : inSync (probeOf env sh {}) = true := by
  simp [probeOf, inSync]

theorem reported_probeOf (env : Env) (sh : Shard) : reported (probeOf env sh {}) = statusOf sh := by
  simp [probeOf, reported]

theorem faultAt_nil (i : Nat) : faultAt [] i = {} := by
  simp [faultAt]

theorem inputOf_probes_length (env : Env) (w : World) (fs : List Fault) (sf : Bool) :
    (inputOf env w fs sf).probes.length = w.running.length := by
  simp [inputOf]

theorem inputOf_probe (env : Env) (w : World) (i : Nat) (sh : Shard) (h : w.running[i]? = some sh) :
    (inputOf env w [] false).probes[i]? = some (probeOf env sh {}) := by
  unfold inputOf
  simp only
  rw [List.getElem?_map]
  have : w.running.zipIdx[i]? = some (sh, i) := by
    rw [List.getElem?_zipIdx, h]; simp
  rw [this]
  simp [faultAt_nil]

/-- updating a sidecar that holds nothing with the empty assignment changes nothing it reports -/
theorem update_empty (now : Nat) (s : Sidecar.SC) (hst : s.status = []) (hid : s.idleAt.isSome = true) :
    (Sidecar.update now s []).status = [] ∧ (Sidecar.update now s []).idleAt = s.idleAt := by
  unfold Sidecar.update Sidecar.updStatus Sidecar.updIdle
  simp only [List.foldl_nil, List.length_nil]
  cases hi : s.idleAt with
  | none => rw [hi] at hid; cases hid
  | some t => simp [Gen.Sidecar.idleSet, Gen.Sidecar.idleClear]

/-- asking for the size the StatefulSet already has changes nothing -/
theorem resize_self (w : World) (h : w.replicas ≤ w.shards.length) : resize w w.replicas = w := by
  unfold resize
  have hl : (List.range w.replicas).map (startedShard w) ++ w.shards.drop w.replicas = w.shards := by
    apply List.ext_getElem?
    intro k
    by_cases hk : k < w.replicas
    · rw [List.getElem?_append_left (by simpa using hk), List.getElem?_map, List.getElem?_range hk]
      have hkl : k < w.shards.length := by omega
      simp [startedShard, hkl, hk]
    · have hge : w.replicas ≤ k := by omega
      rw [List.getElem?_append_right (by simpa using hge)]
      simp only [List.length_map, List.length_range, List.getElem?_drop]
      congr 1
      omega
  rw [hl]

theorem running_length (w : World) (h : w.replicas ≤ w.shards.length) : w.running.length = w.replicas := by
  unfold World.running; simp [List.length_take]; omega

/-- what one running shard becomes in a quiet cycle -/
theorem applyShard_quiet (active : List Hash) (sh : Shard) (rt : Rt)
    (hidle : sh.sc.status = [] → sh.sc.idleAt.isSome = true) :
    (applyShard active sh {} (quietReqs (statusOf sh)) ⟨true, rt, statusOf sh⟩).sc.status = sh.sc.status ∧
    (applyShard active sh {} (quietReqs (statusOf sh)) ⟨true, rt, statusOf sh⟩).sc.idleAt = sh.sc.idleAt := by
  unfold applyShard quietReqs
  by_cases he : (statusOf sh).isEmpty = true
  · have hst : sh.sc.status = [] := by
      have : statusOf sh = [] := List.isEmpty_iff.mp he
      unfold statusOf at this
      exact List.map_eq_nil_iff.mp this
    have hpl : tgtsOf active ⟨true, rt, statusOf sh⟩ = [] := by
      unfold tgtsOf planned
      simp [List.isEmpty_iff.mp he]
    simp only [he, if_true, hpl]
    have := update_empty sh.clock sh.sc hst (hidle hst)
    simp [isPost, this.1, this.2, hst]
  · simp [he, isPost]

/-- **the closed loop is stable in a quiet state** (world level): after one fault-free cycle the
    StatefulSet has the same size, the discovered set is the same, and every sidecar reports the same
    statuses and idle time as before -/
theorem loop_stable (swr : Swr) (env : Env) (w : World) (sc : Sched)
    (hq : Quiet swr (inputOf env w [] false)) (hrep : w.replicas ≤ w.shards.length)
    (hidle : ∀ sh ∈ w.running, sh.sc.status = [] → sh.sc.idleAt.isSome = true) :
    (cycleStep swr env w sc [] false).1.replicas = w.replicas ∧
    (cycleStep swr env w sc [] false).1.active = w.active ∧
    (cycleStep swr env w sc [] false).1.explore = w.explore ∧
    (cycleStep swr env w sc [] false).1.shards.length = w.shards.length ∧
    ∀ (i : Nat) (sh : Shard), w.shards[i]? = some sh →
      ∃ sh', (cycleStep swr env w sc [] false).1.shards[i]? = some sh' ∧
        sh'.sc.status = sh.sc.status ∧ sh'.sc.idleAt = sh.sc.idleAt := by
  obtain ⟨_, hscales, hfinal, hreqs⟩ := quiet_cycle swr sc (inputOf env w [] false) hq
  have hrl := running_length w hrep
  have hpl := inputOf_probes_length env w [] false
  -- the sidecars after the requests
  have hw1len : (applyOutcome w [] (cycle swr sc (inputOf env w [] false))).shards.length = w.shards.length := by
    unfold applyOutcome
    simp only [List.length_append, List.length_map, List.length_zipIdx, List.length_drop]
    rw [hrl]; omega
  have hw1 : ∀ (i : Nat) (sh : Shard), w.shards[i]? = some sh →
      ∃ sh', (applyOutcome w [] (cycle swr sc (inputOf env w [] false))).shards[i]? = some sh' ∧
        sh'.sc.status = sh.sc.status ∧ sh'.sc.idleAt = sh.sc.idleAt := by
    intro i sh hsh
    unfold applyOutcome
    simp only
    by_cases hi : i < w.replicas
    · have hrun : w.running[i]? = some sh := by
        unfold World.running; rw [List.getElem?_take_of_lt hi]; exact hsh
      rw [List.getElem?_append_left (by simp [List.length_zipIdx, hrl, hi])]
      rw [List.getElem?_map]
      have hz : w.running.zipIdx[i]? = some (sh, i) := by rw [List.getElem?_zipIdx, hrun]; simp
      rw [hz]
      simp only [Option.map_some]
      have hp := inputOf_probe env w i sh hrun
      have hr := hreqs i _ hp
      rw [reported_probeOf] at hr
      have hf : (cycle swr sc (inputOf env w [] false)).final[i]? = some ⟨true, effRt (probeOf env sh {}), statusOf sh⟩ := by
        rw [hfinal]
        have := (quiet_infos hq hp).1
        rw [reported_probeOf] at this
        exact this
      rw [hr, hf]
      simp only [faultAt_nil]
      have := applyShard_quiet w.active sh (effRt (probeOf env sh {})) (hidle sh (List.mem_of_getElem? hrun))
      exact ⟨_, rfl, this.1, this.2⟩
    · have hge : w.replicas ≤ i := by omega
      rw [List.getElem?_append_right (by simp [List.length_zipIdx, hrl, hge])]
      simp only [List.length_map, List.length_zipIdx, hrl, List.getElem?_drop]
      have : w.replicas + (i - w.replicas) = i := by omega
      rw [this]
      exact ⟨sh, hsh, rfl, rfl⟩
  -- the scale request is the current size
  have hstep : (cycleStep swr env w sc [] false).1 = applyOutcome w [] (cycle swr sc (inputOf env w [] false)) := by
    unfold cycleStep
    simp only [Bool.false_eq_true, if_false, hscales, List.foldl_cons, List.foldl_nil]
    have hn : ((inputOf env w [] false).probes.length : Int).toNat =
        (applyOutcome w [] (cycle swr sc (inputOf env w [] false))).replicas := by
      rw [hpl, hrl]; unfold applyOutcome; simp
    rw [hn]
    apply resize_self
    rw [hw1len]
    unfold applyOutcome; simpa using hrep
  rw [hstep]
  refine ⟨?_, ?_, ?_, hw1len, hw1⟩
  · unfold applyOutcome; rfl
  · unfold applyOutcome; rfl
  · unfold applyOutcome; rfl

end Kvass.Loop

namespace Kvass.Loop
open Kvass Kvass.Coord Kvass.Spec

/-! ### the quiet state is kept from cycle to cycle (scale-down switched off) -/

/-- two shard infos that differ at most in the idle classification -/
def Rel (a b : SI) : Prop := a.changeable = b.changeable ∧ a.scraping = b.scraping ∧ a.rt.head = b.rt.head ∧ a.rt.proc = b.rt.proc

def RelSS (ss ss' : List SI) : Prop :=
  ss'.length = ss.length ∧ ∀ (i : Nat) (s' : SI), ss'[i]? = some s' → ∃ s : SI, ss[i]? = some s ∧ Rel s s'

theorem relSS_back {ss ss' : List SI} (r : RelSS ss ss') (i : Nat) (s : SI) (h : ss[i]? = some s) :
    ∃ s' : SI, ss'[i]? = some s' ∧ Rel s s' := by
  have hlt : i < ss'.length := by
    rw [r.1]
    rcases Nat.lt_or_ge i ss.length with hl | hl
    · exact hl
    · rw [List.getElem?_eq_none hl] at h; cases h
  obtain ⟨s0, h0, hr⟩ := r.2 i ss'[i] (by simp [hlt])
  rw [h] at h0; cases h0
  exact ⟨ss'[i], by simp [hlt], hr⟩

theorem cleanSS_congr {active : List Hash} {ss ss' : List SI} (r : RelSS ss ss') (h : CleanSS active ss) : CleanSS active ss' := by
  intro i s' hs' k v hg
  obtain ⟨s, hs, hr⟩ := r.2 i s' hs'
  exact h i s hs k v (by rw [hr.2.1]; exact hg)

theorem singleSS_congr {ss ss' : List SI} (r : RelSS ss ss') (h : SingleSS ss) : SingleSS ss' := by
  intro i j si' sj' k hi hj hij hne
  obtain ⟨si, hsi, hri⟩ := r.2 i si' hi
  obtain ⟨sj, hsj, hrj⟩ := r.2 j sj' hj
  rw [← hrj.2.1]
  exact h i j si sj k hsi hsj hij (by rw [hri.2.1]; exact hne)

theorem procTrigger_congr (swr : Swr) (o : Opt) (a b : Rt) (h : a.proc = b.proc) :
    Gen.procTrigger swr o a = Gen.procTrigger swr o b := by
  unfold Gen.procTrigger; rw [h]

theorem headThreshold_congr (swr : Swr) (o : Opt) (a b : Rt) (h : a.head = b.head) :
    headThreshold swr o a = headThreshold swr o b := by
  unfold headThreshold Gen.headTrigger; rw [h]

theorem calmSS_congr {swr : Swr} {o : Opt} {ss ss' : List SI} (r : RelSS ss ss') (h : CalmSS swr o ss) : CalmSS swr o ss' := by
  intro i s' hs'
  obtain ⟨s, hs, hr⟩ := r.2 i s' hs'
  have := h i s hs
  rw [procTrigger_congr swr o s.rt s'.rt hr.2.2.2, headThreshold_congr swr o s.rt s'.rt hr.2.2.1] at this
  exact this

theorem scraping_eq_of_rel {ss ss' : List SI} (r : RelSS ss ss') : ss'.map (·.scraping) = ss.map (·.scraping) := by
  apply List.ext_getElem?
  intro i
  rw [List.getElem?_map, List.getElem?_map]
  cases h' : ss'[i]? with
  | none =>
    have : ss[i]? = none := by
      rw [List.getElem?_eq_none_iff] at h' ⊢; rw [← r.1]; exact h'
    rw [this]
  | some s' =>
    obtain ⟨s, hs, hr⟩ := r.2 i s' h'
    rw [hs]; simp [hr.2.1]

theorem scrapingSetOf_congr {ss ss' : List SI} (r : RelSS ss ss') : scrapingSetOf ss' = scrapingSetOf ss := by
  unfold scrapingSetOf
  have := scraping_eq_of_rel r
  have e : ∀ l : List SI, l.map (·.scraping.keys) = (l.map (·.scraping)).map AL.keys := by
    intro l; simp [List.map_map, Function.comp_def]
  rw [e ss', e ss, this]

theorem findSome_congr {ss ss' : List SI} (r : RelSS ss ss') (F : SI → Option St)
    (hF : ∀ a b : SI, a.scraping = b.scraping → F a = F b) : ss'.findSome? F = ss.findSome? F := by
  have hm := scraping_eq_of_rel r
  clear r
  induction ss' generalizing ss with
  | nil =>
    cases ss with
    | nil => rfl
    | cons x xs => simp at hm
  | cons y ys ih =>
    cases ss with
    | nil => simp at hm
    | cons x xs =>
      simp only [List.map_cons, List.cons.injEq] at hm
      simp only [List.findSome?_cons]
      rw [hF y x hm.1, ih hm.2]

theorem globalOf_congr {ss ss' : List SI} (r : RelSS ss ss') (ex : AL St) (h : Hash) : globalOf ss' ex h = globalOf ss ex h := by
  unfold globalOf
  rw [findSome_congr r _ (fun a b hab => by simp only [hab])]

end Kvass.Loop

namespace Kvass.Loop
open Kvass Kvass.Coord Kvass.Spec

theorem getInfo_probeOf (env : Env) (sh : Shard) :
    getInfo (probeOf env sh {}) = (⟨true, rtOf env sh, statusOf sh⟩, [.getStatus, .getRuntime]) := by
  apply getInfo_quiet <;> simp [probeOf]

theorem probes_inputOf (env : Env) (w : World) :
    (inputOf env w [] false).probes = w.running.map fun sh => probeOf env sh {} := by
  unfold inputOf
  simp only
  apply List.ext_getElem?
  intro i
  rw [List.getElem?_map, List.getElem?_map, List.getElem?_zipIdx]
  cases h : w.running[i]? with
  | none => rfl
  | some sh => simp [faultAt_nil]

theorem infos0_inputOf (env : Env) (w : World) :
    infos0 (inputOf env w [] false) = w.running.map fun sh => (⟨true, rtOf env sh, statusOf sh⟩ : SI) := by
  unfold infos0
  rw [probes_inputOf]
  simp only [List.map_map]
  apply List.map_congr_left
  intro sh _
  simp [Function.comp, getInfo_probeOf]

/-- head and process series a sidecar reports depend on its statuses only -/
theorem rtOf_status (env : Env) (a b : Shard) (h : a.sc.status = b.sc.status) :
    (rtOf env a).head = (rtOf env b).head ∧ (rtOf env a).proc = (rtOf env b).proc := by
  unfold rtOf Sidecar.runtime
  simp only [h]
  exact ⟨trivial, trivial⟩

/-- same statuses on every running shard ⇒ the coordinator's view differs at most in idle times -/
def SameReports (w w' : World) : Prop :=
  w'.running.length = w.running.length ∧
  ∀ (i : Nat) (sh' : Shard), w'.running[i]? = some sh' → ∃ sh : Shard, w.running[i]? = some sh ∧ sh'.sc.status = sh.sc.status

theorem relSS_of_same (env : Env) {w w' : World} (h : SameReports w w') :
    RelSS (infos0 (inputOf env w [] false)) (infos0 (inputOf env w' [] false)) := by
  rw [infos0_inputOf, infos0_inputOf]
  refine ⟨by simp [h.1], ?_⟩
  intro i s' hs'
  rw [List.getElem?_map] at hs'
  cases hr : w'.running[i]? with
  | none => rw [hr] at hs'; cases hs'
  | some sh' =>
    rw [hr] at hs'
    simp only [Option.map_some, Option.some.injEq] at hs'
    subst hs'
    obtain ⟨sh, hsh, hst⟩ := h.2 i sh' hr
    refine ⟨⟨true, rtOf env sh, statusOf sh⟩, by rw [List.getElem?_map, hsh]; rfl, rfl, ?_, ?_, ?_⟩
    · unfold statusOf; rw [hst]
    · exact (rtOf_status env sh sh' hst.symm).1
    · exact (rtOf_status env sh sh' hst.symm).2

/-- with scale-down switched off, a quiet state stays quiet as long as the sidecars report the same
    statuses and the discovered set is the same -/
theorem quiet_preserved (swr : Swr) (env : Env) (w w' : World) (hoff : env.opt.idleOn = false)
    (hsame : SameReports w w') (hact : w'.active = w.active) (hex : w'.explore = w.explore)
    (hq : Quiet swr (inputOf env w [] false)) : Quiet swr (inputOf env w' [] false) := by
  have r := relSS_of_same env hsame
  have hopt : (inputOf env w' [] false).opt = (inputOf env w [] false).opt := rfl
  have hactive : (inputOf env w' [] false).active = (inputOf env w [] false).active := hact
  have hexpl : (inputOf env w' [] false).explore = (inputOf env w [] false).explore := hex
  have hlen : (inputOf env w' [] false).probes.length = (inputOf env w [] false).probes.length := by
    rw [inputOf_probes_length, inputOf_probes_length, hsame.1]
  refine ⟨?_, ?_, ?_, ?_, ?_, ?_, ?_, ?_, Or.inl hoff⟩
  · intro p hp
    rw [probes_inputOf] at hp
    obtain ⟨sh, _, rfl⟩ := List.mem_map.mp hp
    exact ⟨rfl, rfl, statusOf sh, rtOf env sh, rfl, rfl⟩
  · intro p hp
    rw [probes_inputOf] at hp
    obtain ⟨sh', hm, rfl⟩ := List.mem_map.mp hp
    obtain ⟨i, hi⟩ := List.getElem?_of_mem hm
    obtain ⟨sh, hsh, hst⟩ := hsame.2 i sh' hi
    rw [reported_probeOf]
    have := hq.keys (probeOf env sh {}) (by rw [probes_inputOf]; exact List.mem_map.mpr ⟨sh, List.mem_of_getElem? hsh, rfl⟩)
    rw [reported_probeOf] at this
    unfold statusOf at this ⊢
    rw [hst]; exact this
  · rw [hactive]; exact cleanSS_congr r hq.clean
  · exact singleSS_congr r hq.single
  · rcases hq.calm with h | h
    · exact Or.inl h
    · exact Or.inr (calmSS_congr r h)
  · intro h hh
    rw [hactive] at hh
    have := hq.placed h hh
    rw [scrapingSetOf_congr r, hexpl, globalOf_congr r]
    exact this
  · rw [hlen]; exact hq.minOk
  · rw [hlen]; exact hq.maxOk

end Kvass.Loop

namespace Kvass.Loop
open Kvass Kvass.Coord Kvass.Spec

/-- fault-free cycles one after the other, each with its own schedule -/
def cycles (swr : Swr) (env : Env) (w : World) (scs : List Sched) : World :=
  scs.foldl (fun w sc => (cycleStep swr env w sc [] false).1) w

/-- what must stay the same -/
structure Unchanged (w w' : World) : Prop where
  replicas : w'.replicas = w.replicas
  active : w'.active = w.active
  explore : w'.explore = w.explore
  len : w'.shards.length = w.shards.length
  shards : ∀ (i : Nat) (sh : Shard), w.shards[i]? = some sh →
    ∃ sh', w'.shards[i]? = some sh' ∧ sh'.sc.status = sh.sc.status ∧ sh'.sc.idleAt = sh.sc.idleAt

theorem unchanged_refl (w : World) : Unchanged w w :=
  ⟨rfl, rfl, rfl, rfl, fun _ sh h => ⟨sh, h, rfl, rfl⟩⟩

theorem unchanged_trans {a b c : World} (h1 : Unchanged a b) (h2 : Unchanged b c) : Unchanged a c := by
  refine ⟨by rw [h2.replicas, h1.replicas], by rw [h2.active, h1.active], by rw [h2.explore, h1.explore],
    by rw [h2.len, h1.len], ?_⟩
  intro i sh h
  obtain ⟨sh1, e1, s1, i1⟩ := h1.shards i sh h
  obtain ⟨sh2, e2, s2, i2⟩ := h2.shards i sh1 e1
  exact ⟨sh2, e2, by rw [s2, s1], by rw [i2, i1]⟩

theorem sameReports_of_unchanged {w w' : World} (u : Unchanged w w') : SameReports w w' := by
  unfold SameReports World.running
  refine ⟨by simp [List.length_take, u.replicas, u.len], ?_⟩
  intro i sh' h'
  have hi : i < w'.replicas := by
    rcases Nat.lt_or_ge i w'.replicas with hl | hl
    · exact hl
    · rw [List.getElem?_take_eq_none hl] at h'; cases h'
  rw [List.getElem?_take_of_lt hi] at h'
  have hlt : i < w.shards.length := by
    rw [← u.len]
    rcases Nat.lt_or_ge i w'.shards.length with hl | hl
    · exact hl
    · rw [List.getElem?_eq_none hl] at h'; cases h'
  obtain ⟨sh2, e2, s2, _⟩ := u.shards i w.shards[i] (by simp [hlt])
  rw [h'] at e2; cases e2
  exact ⟨w.shards[i], by rw [List.getElem?_take_of_lt (by rw [← u.replicas]; exact hi)]; simp [hlt], s2⟩

/-- **further cycles change nothing**: from a quiet state (scale-down switched off), any number of
    fault-free cycles — each with an arbitrary schedule — leaves the StatefulSet's size, the
    discovered set and every sidecar's statuses and idle time exactly as they were -/
theorem loop_stable_n (swr : Swr) (env : Env) (hoff : env.opt.idleOn = false) :
    ∀ (scs : List Sched) (w : World), Quiet swr (inputOf env w [] false) → w.replicas ≤ w.shards.length →
      (∀ sh ∈ w.running, sh.sc.status = [] → sh.sc.idleAt.isSome = true) →
      Unchanged w (cycles swr env w scs) := by
  intro scs
  induction scs with
  | nil => intro w _ _ _; exact unchanged_refl w
  | cons sc scs ih =>
    intro w hq hrep hidle
    obtain ⟨r1, r2, r3, r4, r5⟩ := loop_stable swr env w sc hq hrep hidle
    have u1 : Unchanged w (cycleStep swr env w sc [] false).1 := ⟨r1, r2, r3, r4, r5⟩
    have hs := sameReports_of_unchanged u1
    have hq' := quiet_preserved swr env w _ hoff hs r2 r3 hq
    have hrep' : (cycleStep swr env w sc [] false).1.replicas ≤ (cycleStep swr env w sc [] false).1.shards.length := by
      rw [r1, r4]; exact hrep
    have hidle' : ∀ sh ∈ (cycleStep swr env w sc [] false).1.running, sh.sc.status = [] → sh.sc.idleAt.isSome = true := by
      intro sh' hm hst
      obtain ⟨i, hi⟩ := List.getElem?_of_mem hm
      unfold World.running at hi
      have hlt : i < (cycleStep swr env w sc [] false).1.replicas := by
        rcases Nat.lt_or_ge i (cycleStep swr env w sc [] false).1.replicas with hl | hl
        · exact hl
        · rw [List.getElem?_take_eq_none hl] at hi; cases hi
      rw [List.getElem?_take_of_lt hlt] at hi
      have hlt2 : i < w.shards.length := by
        rw [← r4]
        rcases Nat.lt_or_ge i (cycleStep swr env w sc [] false).1.shards.length with hl | hl
        · exact hl
        · rw [List.getElem?_eq_none hl] at hi; cases hi
      obtain ⟨sh2, e2, s2, i2⟩ := r5 i w.shards[i] (by simp [hlt2])
      rw [hi] at e2; cases e2
      rw [i2]
      apply hidle w.shards[i]
      · unfold World.running
        apply List.mem_of_getElem? (i := i)
        rw [List.getElem?_take_of_lt (by rw [← r1]; exact hlt)]; simp [hlt2]
      · rw [← s2]; exact hst
    have := ih _ hq' hrep' hidle'
    unfold cycles at this ⊢
    simp only [List.foldl_cons]
    exact unchanged_trans u1 this

end Kvass.Loop
