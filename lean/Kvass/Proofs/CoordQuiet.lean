/-
  A cycle on a converged, calm set of shards does nothing: no stage changes the plan, the scale
  request is the current count, every shard only sees the reads and the extra-config push.
  (stability half of C03 / C06)
-/
import Kvass.Proofs.CoordScale

namespace Kvass.Coord
open Kvass Kvass.Spec

/-! ### the stages on a clean plan -/

/-- every entry is discovered and in normal state -/
def CleanSS (active : List Hash) (ss : List SI) : Prop :=
  ∀ (i : Nat) (s : SI), ss[i]? = some s → ∀ h v, s.scraping.get h = some v → active.contains h = true ∧ v.state = .normal

/-- no hash is held by two shards -/
def SingleSS (ss : List SI) : Prop :=
  ∀ (i j : Nat) (si sj : SI) (h : Hash), ss[i]? = some si → ss[j]? = some sj → i ≠ j →
    si.scraping.get h ≠ none → sj.scraping.get h = none

theorem gcOtherTriggers_false {o : Opt} {ss : List SI} {i : Nat} {s : SI} {tar : St} {h : Hash}
    (hs : ss[i]? = some s) (hh : s.scraping.get h ≠ none) (single : SingleSS ss) :
    gcOtherTriggers o ss i s tar h = false := by
  unfold gcOtherTriggers
  rw [List.any_eq_false]
  intro ⟨os, j⟩ hmem
  rw [List.mem_zipIdx_iff_getElem?] at hmem
  simp only at hmem ⊢
  by_cases hji : j = i
  · subst hji; simp
  · have := single i j s os h hs hmem (Ne.symm hji) hh
    simp [this]

theorem gcShard_noop {o : Opt} {active : List Hash} {ss : List SI} (i : Nat)
    (clean : CleanSS active ss) (single : SingleSS ss) :
    ∀ hs : List Hash, gcShard o active i hs ss = ss := by
  intro hs
  induction hs with
  | nil => rfl
  | cons h hs ih =>
    unfold gcShard
    split
    · rfl
    · rename_i s hs'
      split
      · exact ih
      · rename_i tar htar
        obtain ⟨hact, hst⟩ := clean i s hs' h tar htar
        have hd : gcDecide o active ss i s h tar = false := by
          unfold gcDecide
          simp only [hact, Bool.not_true, Bool.false_eq_true, if_false]
          split
          · rfl
          · exact gcOtherTriggers_false hs' (by rw [htar]; simp) single
        have hr : gcReverts active ss i h tar = false := by
          unfold gcReverts Gen.gcRevert
          simp [hst]
        simp only [hd, hr, Bool.false_eq_true, if_false]
        exact ih

theorem gcFrom_noop {o : Opt} {active : List Hash} {ss : List SI}
    (clean : CleanSS active ss) (single : SingleSS ss) :
    ∀ is : List Nat, gcFrom o active is ss = ss := by
  intro is
  induction is with
  | nil => rfl
  | cons i is ih =>
    unfold gcFrom
    split
    · exact ih
    · split
      · rw [gcShard_noop i clean single]; exact ih
      · exact ih

theorem gc_noop {o : Opt} {active : List Hash} {ss : List SI}
    (clean : CleanSS active ss) (single : SingleSS ss) : gc o active ss = ss := by
  unfold gc; exact gcFrom_noop clean single _

/-- no shard triggers a relief -/
def CalmSS (swr : Swr) (o : Opt) (ss : List SI) : Prop :=
  ∀ (i : Nat) (s : SI), ss[i]? = some s → Gen.procTrigger swr o s.rt = false ∧ headThreshold swr o s.rt = none

theorem allevProcAll_noop {swr : Swr} {o : Opt} {orders : List (List Hash)} {c : CS}
    (calm : CalmSS swr o c.shards) :
    ∀ (is : List Nat) (need : Int), allevProcAll swr o orders is c need = (c, need) := by
  intro is
  induction is with
  | nil => intro need; rfl
  | cons i is ih =>
    intro need
    unfold allevProcAll
    split
    · exact ih need
    · rename_i s hs
      have := (calm i s hs).1
      simp only [this, Bool.and_false, Bool.false_eq_true, if_false]
      exact ih need

theorem allevHeadAll_noop {swr : Swr} {o : Opt} {orders : List (List Hash)} {c : CS}
    (calm : CalmSS swr o c.shards) :
    ∀ (is : List Nat) (need : Int), allevHeadAll swr o orders is c need = (c, need) := by
  intro is
  induction is with
  | nil => intro need; rfl
  | cons i is ih =>
    intro need
    unfold allevHeadAll
    split
    · exact ih need
    · rename_i s hs
      have := (calm i s hs).2
      split
      · rw [this]; exact ih need
      · exact ih need

theorem alleviate_noop {swr : Swr} {o : Opt} {sc : Sched} {c : CS}
    (calm : o.disableAlleviate = true ∨ CalmSS swr o c.shards) :
    alleviate swr o sc c = (c, ⟨0, 0⟩) := by
  unfold alleviate
  split
  · rfl
  · rename_i hd
    have hcalm : CalmSS swr o c.shards := by
      rcases calm with h | h
      · rw [Sites.allevDisabled_iff] at hd; exact absurd h hd
      · exact h
    simp only [allevProcAll_noop hcalm]
    split
    · simp only [allevHeadAll_noop hcalm]
    · rfl

/-- every discovered target is already scraped, not healthy, or too big -/
theorem assignLoop_noop {o : Opt} {scr : List Hash} {glob : Hash → St} {c : CS} (hc : c.crashed = false) :
    ∀ (hs : List Hash) (picks : List Nat) (need : Space),
      (∀ h ∈ hs, scr.contains h = true ∨ Gen.assignSkip (glob h) = true ∨ Gen.tooBig o (glob h) = true) →
      assignLoop o scr glob hs c picks need = (c, picks, need) := by
  intro hs
  induction hs with
  | nil => intro picks need _; rfl
  | cons h hs ih =>
    intro picks need hall
    unfold assignLoop
    simp only [hc, Bool.false_eq_true, if_false]
    have ih' := ih picks need (fun x hx => hall x (List.mem_cons_of_mem _ hx))
    have hh := hall h (List.mem_cons_self)
    split
    · exact ih'
    · rename_i n1
      split
      · exact ih'
      · rename_i n2
        split
        · exact ih'
        · rename_i n3
          rcases hh with h1 | h1 | h1
          · exact absurd h1 n1
          · exact absurd h1 n2
          · exact absurd h1 n3

theorem mem_scrapingSetOf {ss : List SI} {i : Nat} {s : SI} {h : Hash} {v : St}
    (hs : ss[i]? = some s) (hg : s.scraping.get h = some v) : (scrapingSetOf ss).contains h = true := by
  unfold scrapingSetOf
  simp only [List.contains_eq_mem, List.mem_flatten, List.mem_map, decide_eq_true_eq]
  exact ⟨s.scraping.keys, ⟨s, List.mem_of_getElem? hs, rfl⟩, AL.get_some_mem_keys _ _ _ hg⟩

/-! ### requests of a shard that is left alone -/

theorem get_of_mem_nodup {α} : ∀ (m : AL α) (h : Hash) (v : α), m.keys.Nodup → (h, v) ∈ m → m.get h = some v
  | [], _, _, _, hm => by cases hm
  | (k, x) :: m, h, v, hnd, hm => by
    have hnd' : (k :: AL.keys m).Nodup := hnd
    rw [List.nodup_cons] at hnd'
    rw [AL.get_cons]
    rcases List.mem_cons.mp hm with e | e
    · cases e; simp
    · have hk : k ≠ h := by
        intro e2; subst e2
        exact hnd'.1 (AL.get_some_mem_keys m k v (get_of_mem_nodup m k v hnd'.2 e))
      simp only [hk, if_false]
      exact get_of_mem_nodup m h v hnd'.2 e

end Kvass.Coord

namespace Kvass.Coord
open Kvass Kvass.Spec

/-! ### scale-down on a set of shards whose last one is busy and cannot be emptied -/

def NoDown (o : Opt) (ss : List SI) : Prop :=
  ∃ s, ss[ss.length - 1]? = some s ∧ s.rt.idle = .none ∧
    (ss.length ≤ 1 ∨ ∀ ord : List Hash,
      shardCanBeIdle o ss (ss.length - 1) (uniq (ord.filter s.scraping.keys.contains)) = false)

theorem tryScaleDown_noop {o : Opt} {sc : Sched} {ss : List SI} {log : List Placement} {picks : List Nat}
    (hn : NoDown o ss) :
    tryScaleDown o sc ⟨ss, log, false⟩ picks = ((ss.length : Int), ⟨ss, log, false⟩) := by
  obtain ⟨s, hs, hidle, hcan⟩ := hn
  have hpos : 0 < ss.length := by
    rcases Nat.eq_zero_or_pos ss.length with h | h
    · rw [h] at hs; simp at hs
      have : ss = [] := List.eq_nil_of_length_eq_zero h
      subst this; simp at hs
    · exact h
  unfold tryScaleDown
  simp only
  have hrem : removableSuffix ss ss.length = ss.length := by
    obtain ⟨k, hk⟩ : ∃ k, ss.length = k + 1 := ⟨ss.length - 1, by omega⟩
    rw [hk]
    unfold removableSuffix
    have hs' : ss[k]? = some s := by rw [hk] at hs; simpa using hs
    rw [hs']
    simp only
    have : Gen.removable s.changeable (s.scraping.length : Int) s.rt = false := by
      cases hr : Gen.removable s.changeable (s.scraping.length : Int) s.rt with
      | false => rfl
      | true => rw [Sites.removable_iff] at hr; rw [hidle] at hr; cases hr.2.2
    simp [this]
  rw [hrem]
  congr 1
  rcases hcan with h1 | hall
  · have : ss.length - 1 = 0 := by omega
    rw [this]; rfl
  · obtain ⟨k, hk⟩ : ∃ k, ss.length - 1 = k + 1 ∨ ss.length - 1 = 0 := ⟨ss.length - 2, by omega⟩
    rcases hk with hk | hk
    · rw [hk]
      unfold sdLoop
      simp only
      rw [hk] at hs hall
      rw [hs]
      simp only
      have : Gen.sdSkipIdle s.rt = false := by
        cases hr : Gen.sdSkipIdle s.rt with
        | false => rfl
        | true => rw [Sites.sdSkipIdle_iff] at hr; exact absurd hidle hr
      simp only [this, Bool.false_eq_true, if_false]
      rw [hall (orderFor sc.canIdle (k + 1))]
      simp
    · rw [hk]; rfl

/-! ### the quiet cycle -/

structure Quiet (swr : Swr) (inp : Input) : Prop where
  sync : ∀ p ∈ inp.probes, p.ready = true ∧ p.postOk = true ∧ ∃ st rt, p.status = some st ∧ p.rt1 = some (rt, true)
  keys : ∀ p ∈ inp.probes, (reported p).keys.Nodup
  clean : CleanSS inp.active (infos0 inp)
  single : SingleSS (infos0 inp)
  calm : inp.opt.disableAlleviate = true ∨ CalmSS swr inp.opt (infos0 inp)
  placed : ∀ h ∈ inp.active, (scrapingSetOf (infos0 inp)).contains h = true ∨
    Gen.assignSkip (globalOf (infos0 inp) inp.explore h) = true ∨
    Gen.tooBig inp.opt (globalOf (infos0 inp) inp.explore h) = true
  minOk : inp.opt.minShard ≤ (inp.probes.length : Int)
  maxOk : (inp.probes.length : Int) ≤ inp.opt.maxShard
  noDown : inp.opt.idleOn = false ∨ NoDown inp.opt (infos0 inp)

theorem getInfo_quiet {p : Probe} {st : AL St} {rt : Rt} (hr : p.ready = true) (hs : p.status = some st)
    (h1 : p.rt1 = some (rt, true)) : getInfo p = (⟨true, rt, st⟩, [.getStatus, .getRuntime]) := by
  unfold getInfo; simp [hr, hs, h1]

theorem infos0_length (inp : Input) : (infos0 inp).length = inp.probes.length := by
  unfold infos0; simp

end Kvass.Coord

namespace Kvass.Coord
open Kvass Kvass.Spec

theorem quiet_infos {swr : Swr} {inp : Input} (q : Quiet swr inp) {i : Nat} {p : Probe}
    (hp : inp.probes[i]? = some p) :
    (infos0 inp)[i]? = some ⟨true, effRt p, reported p⟩ ∧ (getInfo p).2 = [.getStatus, .getRuntime] := by
  obtain ⟨hr, _, st, rt, hs, h1⟩ := q.sync p (List.mem_of_getElem? hp)
  have hg := getInfo_quiet hr hs h1
  rw [infos0_get, hp]
  simp only [Option.map_some, hg]
  refine ⟨?_, trivial⟩
  unfold effRt reported
  simp [h1, hr, hs]

/-- the plan a quiet shard is sent is what it reported -/
theorem applyReqs_quiet {active : List Hash} {p : Probe} (hr : p.ready = true) (hpo : p.postOk = true)
    (hst : p.status.isSome = true) (hk : (reported p).keys.Nodup)
    (hclean : ∀ h v, (reported p).get h = some v → active.contains h = true ∧ v.state = .normal)
    (rt : Rt) :
    [Req.getStatus, Req.getRuntime] ++ applyReqs active p ⟨true, rt, reported p⟩ = quietReqs (reported p) := by
  have hrep : p.status.getD [] = reported p := by unfold reported; simp [hr]
  have hplanned : planned active ⟨true, rt, reported p⟩ = reported p := by
    unfold planned
    simp only
    apply List.filter_eq_self.mpr
    intro ⟨h, v⟩ hm
    exact (hclean h v (get_of_mem_nodup _ h v hk hm)).1
  unfold applyReqs quietReqs
  simp only [Bool.not_true, Bool.false_eq_true, if_false, hrep]
  unfold body
  rw [hplanned]
  by_cases he : (reported p).isEmpty = true
  · have : reported p = [] := List.isEmpty_iff.mp he
    simp [this, needUpdate, Gen.needUpdateLen, hpo]
  · have hne : reported p ≠ [] := fun e => he (by rw [e]; rfl)
    have hnu : needUpdate (reported p) (List.map (fun p => (p.1, p.2.state, p.2.series)) (reported p)) = false := by
      unfold needUpdate
      rw [Bool.or_eq_false_iff]
      constructor
      · cases hl : Gen.needUpdateLen (↑(List.map (fun p => (p.1, p.2.state, p.2.series)) (reported p)).length)
            (↑(reported p).length) with
        | false => rfl
        | true =>
          rw [Sites.needUpdateLen_iff] at hl
          simp only [List.length_map, ne_eq, not_true_eq_false, false_or] at hl
          have : (reported p).length = 0 := by omega
          exact absurd (List.eq_nil_of_length_eq_zero this) hne
      · rw [List.any_eq_false]
        intro ⟨h, st, se⟩ hm
        simp only [List.mem_map] at hm
        obtain ⟨⟨h', v⟩, hmem, e⟩ := hm
        simp only [Prod.mk.injEq] at e
        obtain ⟨rfl, rfl, rfl⟩ := e
        have hg := get_of_mem_nodup _ h' v hk hmem
        simp only [hg]
        unfold Gen.needUpdateEntry
        simp
    simp [he, hnu]

/-- **stability**: a cycle over converged, calm, fully placed shards changes nothing — for every
    schedule: no crash, the scale request is the current count, every shard receives exactly the
    two reads and the extra-config push (plus its empty assignment when it holds nothing). -/
theorem quiet_cycle (swr : Swr) (sc : Sched) (inp : Input) (q : Quiet swr inp) :
    (cycle swr sc inp).crashed = false ∧
    (cycle swr sc inp).scales = [(inp.probes.length : Int)] ∧
    (cycle swr sc inp).final = infos0 inp ∧
    ∀ (i : Nat) (p : Probe), inp.probes[i]? = some p →
      (cycle swr sc inp).reqs[i]? = some (quietReqs (reported p)) := by
  have hgc := gc_noop (o := inp.opt) q.clean q.single
  have hal : alleviate swr inp.opt sc { shards := infos0 inp } = ({ shards := infos0 inp }, ⟨0, 0⟩) :=
    alleviate_noop q.calm
  have has : assign inp.opt inp.active (globalOf (infos0 inp) inp.explore) sc { shards := infos0 inp } =
      ({ shards := infos0 inp }, sc.picks, {}) := by
    unfold assign
    apply assignLoop_noop rfl
    intro h hm
    rw [mem_uniq, List.mem_filter] at hm
    exact q.placed h (by simpa using hm.2)
  have hearly : Gen.earlyMin inp.opt ((infos0 inp).length : Int) (nChangeable (infos0 inp)) = false := by
    cases he : Gen.earlyMin inp.opt ((infos0 inp).length : Int) (nChangeable (infos0 inp)) with
    | false => rfl
    | true =>
      rw [Sites.earlyMin_iff, infos0_length] at he
      have := q.minOk; omega
  have hscale : (if Gen.scaleDownOn inp.opt = true then tryScaleDown inp.opt sc { shards := infos0 inp } sc.picks
      else (Gen.scaleInit ((infos0 inp).length : Int) (nChangeable (infos0 inp)), { shards := infos0 inp })) =
      (((infos0 inp).length : Int), ({ shards := infos0 inp } : CS)) := by
    split
    · rename_i hd
      rcases q.noDown with h | h
      · rw [Sites.scaleDownOn_iff] at hd; rw [h] at hd; cases hd
      · exact tryScaleDown_noop h
    · rfl
  have hclamp : ∀ k : Int, k = (inp.probes.length : Int) →
      (if Gen.clampMin inp.opt (if Gen.clampMax inp.opt k = true then Gen.clampMaxTo inp.opt else k) = true
        then Gen.clampMinTo inp.opt else (if Gen.clampMax inp.opt k = true then Gen.clampMaxTo inp.opt else k)) = k := by
    intro k hk
    have h1 : Gen.clampMax inp.opt k = false := by
      cases h : Gen.clampMax inp.opt k with
      | false => rfl
      | true => rw [Sites.clampMax_iff] at h; have := q.maxOk; omega
    simp only [h1, Bool.false_eq_true, if_false]
    have h2 : Gen.clampMin inp.opt k = false := by
      cases h : Gen.clampMin inp.opt k with
      | false => rfl
      | true => rw [Sites.clampMin_iff] at h; have := q.minOk; omega
    simp [h2]
  have hzero : Gen.needUp (Gen.spaceIsZero (spaceAdd ⟨0, 0⟩ {})) = false := by
    simp [Gen.needUp, Gen.spaceIsZero, spaceAdd, Gen.spaceAddHead, Gen.spaceAddProc]
  have hcyc : cycle swr sc inp =
      { reqs := ((getReqsOf inp).zip ((inp.probes.zip (infos0 inp)).map fun (p, s) => applyReqs inp.active p s)).map
                  fun (a, b) => a ++ b,
        scales := [(inp.probes.length : Int)], log := [], final := infos0 inp, afterGc := infos0 inp, crashed := false } := by
    unfold cycle
    unfold infos0 getReqsOf at *
    simp only [hearly, Bool.false_and, Bool.false_eq_true, if_false, hgc, hal, has, hzero, divCrash, Bool.and_false,
      Bool.or_false, hscale]
    simp only [Sites.finalScaleArg_eq, List.nil_append]
    rw [hclamp _ (by simp)]
    simp
  rw [hcyc]
  refine ⟨rfl, rfl, rfl, ?_⟩
  intro i p hp
  obtain ⟨hinfo, hget⟩ := quiet_infos q hp
  obtain ⟨hr, hpo, st, rt, hs, h1⟩ := q.sync p (List.mem_of_getElem? hp)
  have hreqs : (getReqsOf inp)[i]? = some [.getStatus, .getRuntime] := by
    rw [getReqsOf_get, hp]; simp [hget]
  have hz : (inp.probes.zip (infos0 inp))[i]? = some (p, ⟨true, effRt p, reported p⟩) :=
    List.getElem?_zip_eq_some.mpr ⟨hp, hinfo⟩
  have hap : ((inp.probes.zip (infos0 inp)).map fun (p, s) => applyReqs inp.active p s)[i]? =
      some (applyReqs inp.active p ⟨true, effRt p, reported p⟩) := by
    rw [List.getElem?_map, hz]; rfl
  simp only
  rw [zipmap_get _ _ _ i _ _ hreqs hap]
  simp only
  congr 1
  apply applyReqs_quiet hr hpo (by rw [hs]; rfl) (q.keys p (List.mem_of_getElem? hp))
  intro h v hg
  exact q.clean i _ hinfo h v hg

end Kvass.Coord

namespace Kvass.Coord
open Kvass Kvass.Spec

/-! ### a decidable check of the hypotheses (scale-down switched off) -/

theorem quietB_sound (swr : Swr) (inp : Input) (h : quietB swr inp = true) : Quiet swr inp := by
  unfold quietB at h
  change _ at h
  rw [show (inp.probes.map getInfo).map (·.1) = infos0 inp from rfl] at h
  simp only [Bool.and_eq_true, List.all_eq_true, decide_eq_true_eq, Bool.not_eq_true', Bool.or_eq_true] at h
  obtain ⟨⟨⟨⟨⟨⟨⟨hsync, hclean⟩, hsingle⟩, hcalm⟩, hplaced⟩, hmin⟩, hmax⟩, hidle⟩ := h
  refine ⟨?_, ?_, ?_, ?_, ?_, ?_, hmin, hmax, Or.inl hidle⟩
  · intro p hp
    obtain ⟨⟨⟨⟨hr, hpo⟩, hst⟩, hrt⟩, _⟩ := hsync p hp
    refine ⟨hr, hpo, ?_⟩
    cases hs : p.status with
    | none => rw [hs] at hst; cases hst
    | some st =>
      cases h1 : p.rt1 with
      | none => rw [h1] at hrt; cases hrt
      | some r =>
        obtain ⟨rt, eq⟩ := r
        cases eq with
        | false => rw [h1] at hrt; cases hrt
        | true => exact ⟨st, rt, rfl, rfl⟩
  · intro p hp
    exact (hsync p hp).2
  · intro i s hs k v hg
    have := hclean s (List.mem_of_getElem? hs) (k, v) (get_some_mem _ _ _ hg)
    simp only [Bool.and_eq_true, beq_iff_eq] at this
    exact this
  · intro i j si sj k hi hj hij hne
    have h1 := hsingle (si, i) (List.mem_zipIdx_iff_getElem?.mpr hi) (sj, j) (List.mem_zipIdx_iff_getElem?.mpr hj)
    simp only [beq_iff_eq] at h1
    rcases h1 with h1 | h1
    · exact absurd h1 hij
    · cases hg : si.scraping.get k with
      | none => exact absurd hg hne
      | some v =>
        have hk : k ∈ si.scraping.keys := AL.get_some_mem_keys _ _ _ hg
        have := h1 k hk
        cases hgj : sj.scraping.get k with
        | none => rfl
        | some w =>
          have : sj.scraping.has k = true := (AL.has_iff _ _).mpr ⟨w, hgj⟩
          simp_all
  · rcases hcalm with h1 | h1
    · exact Or.inl h1
    · right
      intro i s hs
      have := h1 s (List.mem_of_getElem? hs)
      simp only [Bool.and_eq_true, Bool.not_eq_true', Option.isNone_iff_eq_none] at this
      exact this
  · intro k hk
    have := hplaced k hk
    rcases this with (h1 | h1) | h1
    · exact Or.inl h1
    · exact Or.inr (Or.inl h1)
    · exact Or.inr (Or.inr h1)

end Kvass.Coord
