/-
  Sizes stay non-negative along every history (so the coordinator never crashes on what sidecars
  report), and from that: an eligible discovered target is placed within a bounded number of
  fault-free cycles, unless max-shard is reached first.
-/
import Kvass.Proofs.LoopFaulty
import Kvass.Proofs.LoopPlace
import Kvass.Proofs.CoordFit
import Kvass.Proofs.CoordRemoval
import Kvass.Proofs.CoordCrash
import Kvass.Proofs.LoopScrapes

namespace Kvass.Loop
open Kvass Kvass.Coord Kvass.Spec

/-- no negative size anywhere in a sidecar's state -/
structure SPos (sh : Shard) : Prop where
  st : ∀ h v, sh.sc.status.get h = some v → 0 ≤ v.series ∧ 0 ≤ v.total ∧ ∀ x ∈ v.window, 0 ≤ x
  tg : ∀ t ∈ sh.sc.targets, 0 ≤ t.series ∧ 0 ≤ t.total

theorem list_sum_nonneg : ∀ (l : List Int), (∀ x ∈ l, 0 ≤ x) → 0 ≤ l.sum := by
  intro l
  induction l with
  | nil => intro _; simp
  | cons a l ih =>
    intro h
    simp only [List.sum_cons]
    have := h a List.mem_cons_self
    have := ih (fun x hx => h x (List.mem_cons_of_mem _ hx))
    omega

theorem spos_update (now : Nat) (s : Sidecar.SC) (req : List Sidecar.Tgt) (c : Nat) (ho : Props.C10.Once req)
    (hreq : ∀ t ∈ req, 0 ≤ t.series ∧ 0 ≤ t.total)
    (hs : ∀ h v, s.status.get h = some v → 0 ≤ v.series ∧ 0 ≤ v.total ∧ ∀ x ∈ v.window, 0 ≤ x) :
    SPos ⟨Sidecar.update now s req, c⟩ := by
  constructor
  · intro h v hg
    have hg' : (Sidecar.updStatus s.status req).get h = some v := hg
    have hk := AL.get_some_mem_keys _ _ _ hg'
    rw [Sidecar.updStatus_keys] at hk
    obtain ⟨t, ht, rfl⟩ := List.mem_map.mp hk
    rw [Sidecar.updStatus_get s.status req t ht (ho t ht)] at hg'
    cases hg'
    unfold Sidecar.entry
    split
    · rename_i s0 hs0
      exact hs t.hash s0 hs0
    · obtain ⟨h1, h2⟩ := hreq t ht
      exact ⟨h1, h2, fun x hx => by cases hx⟩
  · exact hreq

theorem spos_restart (sh : Shard) (hc : Props.C10.Cons sh.sc) (hp : SPos sh) : SPos (restartShard sh) := by
  unfold restartShard Sidecar.restart
  exact spos_update _ _ _ _ hc.once hp.tg (by intro h v hg; simp [AL.get] at hg)

theorem spos_fresh : SPos freshShard := by
  show SPos ⟨Sidecar.update 0 {} [], 1⟩
  exact spos_update 0 {} [] 1 (by intro t ht; cases ht) (by intro t ht; cases ht) (by intro h v hg; simp [AL.get] at hg)

theorem spos_scrape (sh : Shard) (k : Hash) (r : Option (Int × Int))
    (hr : ∀ a b, r = some (a, b) → 0 ≤ a ∧ 0 ≤ b) (hp : SPos sh) :
    SPos ⟨Sidecar.scrape sh.sc k r, sh.clock + 1⟩ := by
  constructor
  · intro h v hg
    have hg' : (Sidecar.scrape sh.sc k r).status.get h = some v := hg
    unfold Sidecar.scrape at hg'
    split at hg'
    · exact hp.st h v hg'
    · rename_i st hst
      simp only at hg'
      rw [AL.get_set] at hg'
      split at hg'
      · obtain ⟨p1, p2, p3⟩ := hp.st k st hst
        cases r with
        | none =>
          simp only [Option.some.injEq] at hg'
          subst hg'
          exact ⟨p1, p2, p3⟩
        | some ab =>
          obtain ⟨a, b⟩ := ab
          obtain ⟨ha, hb⟩ := hr a b rfl
          simp only [Option.some.injEq] at hg'
          subst hg'
          have hw : ∀ x ∈ Sidecar.pushWindow st.window (Gen.Sidecar.pushedValue a), 0 ≤ x := by
            intro x hx
            unfold Sidecar.pushWindow Gen.Sidecar.pushedValue at hx
            split at hx
            · rcases List.mem_append.mp hx with hx | hx
              · exact p3 x hx
              · simp at hx; subst hx; exact ha
            · rcases List.mem_append.mp hx with hx | hx
              · exact p3 x (List.mem_of_mem_drop hx)
              · simp at hx; subst hx; exact ha
          refine ⟨?_, ?_, hw⟩
          · show 0 ≤ Gen.Sidecar.meanOf _ _
            unfold Gen.Sidecar.meanOf
            exact Int.tdiv_nonneg (list_sum_nonneg _ hw) (by omega)
          · show 0 ≤ Gen.Sidecar.totalOf b
            exact hb
      · exact hp.st h v hg'
  · intro t ht
    have : (Sidecar.scrape sh.sc k r).targets = sh.sc.targets := by
      unfold Sidecar.scrape; split <;> rfl
    have ht' : t ∈ (Sidecar.scrape sh.sc k r).targets := ht
    rw [this] at ht'
    exact hp.tg t ht'

theorem spos_applyShard (active : List Hash) (sh : Shard) (f : Fault) (rs : List Req) (fin : SI)
    (hp : SPos sh)
    (hn : rs.any isPost = true → fin.scraping.keys.Nodup ∧ ∀ h v, fin.scraping.get h = some v → 0 ≤ v.series) :
    SPos (applyShard active sh f rs fin) := by
  unfold applyShard
  split
  · rename_i hc
    simp only [Bool.and_eq_true] at hc
    obtain ⟨hnd, hpos⟩ := hn hc.1
    apply spos_update _ _ _ _ (fun t ht => tgtsOf_once active fin hnd t ht) _ hp.st
    intro t ht
    unfold tgtsOf at ht
    obtain ⟨p, hpm, rfl⟩ := List.mem_map.mp ht
    simp only
    have hg := get_of_mem_nodup' (planned active fin) p.1 p.2 hpm (planned_keys_nodup active fin hnd)
    rw [planned_get] at hg
    split at hg
    · exact ⟨hpos p.1 p.2 hg, Int.le_refl 0⟩
    · cases hg
  · exact hp

/-- the world invariant with sizes -/
structure WPos (env : Env) (w : World) : Prop extends WInv env w where
  pos : ∀ sh ∈ w.shards, SPos sh
  expl : ∀ e ∈ w.explore, 0 ≤ e.2.series ∧ 0 ≤ e.2.total

theorem sizesOK_inputOf (env : Env) (w : World) (F : List Fault) (b : Bool) (hw : WPos env w) :
    SizesOK (inputOf env w F b) := by
  constructor
  · intro p hpm h v hg
    obtain ⟨k, hk⟩ := List.getElem?_of_mem hpm
    have hkl : k < w.running.length := by
      have := (List.getElem?_eq_some_iff.mp hk).1
      rw [inputOf_probes_length] at this; exact this
    have hrk : w.running[k]? = some w.running[k] := by simp [hkl]
    have := inputOf_probe_f env w F b k _ hrk
    rw [hk] at this
    cases this
    have hh : (reported (probeOf env w.running[k] (faultAt F k))).has h = true := (AL.has_iff _ _).mpr ⟨v, hg⟩
    have hsub : (statusOf w.running[k]).get h = some v := by
      unfold reported probeOf at hg
      cases hn : (faultAt F k).notReady <;> cases hs : (faultAt F k).statusFail <;> simp [hn, hs, AL.get] at hg
      exact hg
    rw [statusOf_get] at hsub
    cases hs0 : (w.running[k]).sc.status.get h with
    | none => rw [hs0] at hsub; cases hsub
    | some s0 =>
      rw [hs0] at hsub
      simp only [Option.map_some, Option.some.injEq] at hsub
      subst hsub
      obtain ⟨p1, p2, _⟩ := (hw.pos _ (List.mem_of_mem_take (List.mem_of_getElem? hrk))).st h s0 hs0
      exact ⟨p1, p2⟩
  · intro h e hg
    exact hw.expl (h, e) (get_some_mem _ _ _ hg)

theorem wpos_applyOutcome (swr : Swr) (env : Env) (w : World) (sc : Sched) (F : List Fault) (b : Bool) (hw : WPos env w) :
    ∀ sh ∈ (applyOutcome w F (cycle swr sc (inputOf env w F b))).shards, SPos sh := by
  have hrl := running_length w hw.rep
  have hpl := inputOf_probes_length env w F b
  have hok := sizesOK_inputOf env w F b hw
  have hndI : ∀ p ∈ (inputOf env w F b).probes, (reported p).keys.Nodup := by
    intro p hpm
    obtain ⟨k, hk⟩ := List.getElem?_of_mem hpm
    have hkl : k < w.running.length := by
      have := (List.getElem?_eq_some_iff.mp hk).1
      rw [hpl] at this; exact this
    have hrk : w.running[k]? = some w.running[k] := by simp [hkl]
    have := inputOf_probe_f env w F b k _ hrk
    rw [hk] at this
    cases this
    have hn : (statusOf w.running[k]).keys.Nodup := by
      rw [reported_keys_statusOf]; exact (ws_running hw.toWS _ (List.mem_of_getElem? hrk)).nodup
    unfold reported probeOf
    cases (faultAt F k).notReady <;> cases (faultAt F k).statusFail <;> simp [AL.keys] <;> exact hn
  intro sh hm
  unfold applyOutcome at hm
  simp only [List.mem_append, List.mem_map] at hm
  rcases hm with ⟨⟨s, i⟩, hzi, rfl⟩ | hm
  · have hsi : w.running[i]? = some s := by
      have := List.mem_zipIdx hzi
      simp only [Nat.zero_add, Nat.le_refl, true_and] at this
      obtain ⟨_, hlt, he⟩ := this
      simp only [Nat.sub_zero] at he hlt
      rw [List.getElem?_eq_getElem hlt, he]
    have hs := hw.pos s (List.mem_of_mem_take (List.mem_of_getElem? hsi))
    have hp := inputOf_probe_f env w F b i s hsi
    simp only
    cases hr : (cycle swr sc (inputOf env w F b)).reqs[i]? with
    | none => exact hs
    | some rs =>
      cases hf : (cycle swr sc (inputOf env w F b)).final[i]? with
      | none => exact hs
      | some fin =>
        simp only
        apply spos_applyShard _ _ _ _ _ hs
        intro hpost
        rcases reqs_cases swr sc (inputOf env w F b) hp with h1 | ⟨hne, s', hs', _⟩
        · rw [hr] at h1; cases h1
          rw [getInfo_noIsPost] at hpost; cases hpost
        · rw [hf] at hs'; cases hs'
          refine ⟨cycle_nodup swr sc (inputOf env w F b) hne hndI i fin hf, ?_⟩
          intro h v hv
          exact ((cycle_fp swr sc (inputOf env w F b) hok hne).2.pos i fin h v hf hv).1
  · exact hw.pos sh (List.mem_of_mem_drop hm)

theorem spos_resize (w : World) (n : Nat) (hws : WS w) (hp : ∀ sh ∈ w.shards, SPos sh) :
    ∀ sh ∈ (resize w n).shards, SPos sh := by
  intro sh hm
  unfold resize at hm
  simp only [List.mem_append, List.mem_map, List.mem_range] at hm
  rcases hm with ⟨i, _, rfl⟩ | hm
  · unfold startedShard
    cases hs : w.shards[i]? with
    | none => exact spos_fresh
    | some s =>
      simp only
      split
      · exact hp s (List.mem_of_getElem? hs)
      · exact spos_restart s (hws.all s (List.mem_of_getElem? hs)).cons (hp s (List.mem_of_getElem? hs))
  · exact hp sh (List.mem_of_mem_drop hm)

theorem spos_resizes : ∀ (ks : List Int) (w : World), WS w → (∀ sh ∈ w.shards, SPos sh) →
    ∀ sh ∈ (ks.foldl (fun w k => resize w k.toNat) w).shards, SPos sh := by
  intro ks
  induction ks with
  | nil => intro w _ h; exact h
  | cons k ks ih => intro w hws h; exact ih _ (ws_resize w k.toNat hws) (spos_resize w k.toNat hws h)

theorem resizes_explore : ∀ (ks : List Int) (w : World), (ks.foldl (fun w k => resize w k.toNat) w).explore = w.explore := by
  intro ks
  induction ks with
  | nil => intro w; rfl
  | cons k ks ih => intro w; simp only [List.foldl_cons]; rw [ih]; rfl

theorem cycleStep_wpos (swr : Swr) (env : Env) (w : World) (sc : Sched) (F : List Fault) (b : Bool)
    (hmm : env.opt.minShard ≤ env.opt.maxShard) (hw : WPos env w) :
    WPos env (cycleStep swr env w sc F b).1 ∧ (cycleStep swr env w sc F b).1.active = w.active ∧
      (cycleStep swr env w sc F b).1.explore = w.explore := by
  obtain ⟨h1, h2⟩ := cycleStep_winv swr env w sc F b hmm hw.toWInv
  have h3 := wpos_applyOutcome swr env w sc F b hw
  have h4 := ws_applyOutcome swr env w sc F b hw.toWS
  refine ⟨⟨h1, ?_, ?_⟩, h2, ?_⟩
  · unfold cycleStep
    simp only
    cases b with
    | true => simp only [if_true]; exact h3
    | false => simp only [Bool.false_eq_true, if_false]; exact spos_resizes _ _ h4 h3
  · have : (cycleStep swr env w sc F b).1.explore = w.explore := by
      unfold cycleStep
      simp only
      cases b with
      | true => rfl
      | false => simp only [Bool.false_eq_true, if_false]; rw [resizes_explore]; rfl
    rw [this]; exact hw.expl
  · unfold cycleStep
    simp only
    cases b with
    | true => rfl
    | false => simp only [Bool.false_eq_true, if_false]; rw [resizes_explore]; rfl

theorem nonNeg_inputOf_f (env : Env) (w : World) (F : List Fault) (b : Bool) (hw : WPos env w) :
    NonNeg (inputOf env w F b) := by
  constructor
  · intro p hpm st hst e he
    obtain ⟨k, hk⟩ := List.getElem?_of_mem hpm
    have hkl : k < w.running.length := by
      have := (List.getElem?_eq_some_iff.mp hk).1
      rw [inputOf_probes_length] at this; exact this
    have hrk : w.running[k]? = some w.running[k] := by simp [hkl]
    have := inputOf_probe_f env w F b k _ hrk
    rw [hk] at this
    cases this
    have hst' : st = statusOf w.running[k] := by
      unfold probeOf at hst
      simp only at hst
      split at hst
      · cases hst
      · simp at hst; exact hst.symm
    subst hst'
    unfold statusOf at he
    obtain ⟨q, hq, rfl⟩ := List.mem_map.mp he
    have hsh := List.mem_of_mem_take (List.mem_of_getElem? hrk)
    have hg := get_of_mem_nodup' _ q.1 q.2 hq (hw.all _ hsh).nodup
    obtain ⟨p1, p2, _⟩ := (hw.pos _ hsh).st q.1 q.2 hg
    exact ⟨p1, p2⟩
  · exact hw.expl

theorem nonNeg_inputOf (env : Env) (w : World) (hw : WPos env w) : NonNeg (inputOf env w [] false) :=
  nonNeg_inputOf_f env w [] false hw

/-- the coordinator sees an unheld target through the explorer's estimate -/
theorem unheld_global (env : Env) (w : World) (h : Hash) (e : St) (hn : ¬ Held w h) (he : w.explore.get h = some e) :
    globalOf (infos0 (inputOf env w [] false)) w.explore h = e := by
  rcases globalOf_cases (infos0 (inputOf env w [] false)) w.explore h with ⟨s, hs, hg⟩ | ⟨he', _⟩ | ⟨he', _⟩
  · exfalso
    obtain ⟨i, hi⟩ := List.getElem?_of_mem hs
    obtain ⟨sh, hrun, rfl⟩ := infos0_running env w i s hi
    exact hn ⟨i, sh, hrun, (AL.has_iff _ _).mpr ⟨_, hg⟩⟩
  · rw [he] at he'; exact (Option.some.inj he').symm
  · rw [he] at he'; cases he'

theorem held_step (swr : Swr) (env : Env) (w : World) (sc : Sched) (h : Hash) (hw : WInv env w)
    (ha : h ∈ w.active) (hh : Held w h) : Held (cycleStep swr env w sc [] false).1 h := by
  obtain ⟨i, sh, hrun, hhas⟩ := hh
  obtain ⟨d, shd, hd, hshd, hhd⟩ := step_keep_f swr env w sc [] false hw.rep
    (fun s hs => by rw [reported_keys_statusOf]; exact (ws_running hw.toWS s hs).nodup)
    (fun s hs => (ws_running hw.toWS s hs).idle) hw.max hrun hhas ha
  exact ⟨d, shd, running_of_shards _ d shd hd hshd, hhd⟩

theorem cycles_cons (swr : Swr) (env : Env) (w : World) (sc : Sched) (scs : List Sched) :
    cycles swr env w (sc :: scs) = cycles swr env (cycleStep swr env w sc [] false).1 scs := rfl

theorem held_cycles (swr : Swr) (env : Env) (hmm : env.opt.minShard ≤ env.opt.maxShard) (h : Hash) :
    ∀ (scs : List Sched) (w : World), WInv env w → h ∈ w.active → Held w h → Held (cycles swr env w scs) h := by
  intro scs
  induction scs with
  | nil => intro w _ _ hh; exact hh
  | cons sc scs ih =>
    intro w hw ha hh
    rw [cycles_cons]
    obtain ⟨hw', hact⟩ := cycleStep_winv swr env w sc [] false hmm hw
    exact ih _ hw' (by rw [hact]; exact ha) (held_step swr env w sc h hw ha hh)

/-- **placed within a bounded number of cycles.**  A discovered target that nobody holds, that the
    explorer probed successfully, that is not too big and has a non-zero size: along fault-free
    cycles whose schedules visit every discovered target, it is held at the end, or the StatefulSet
    has grown by one shard per cycle, or at some point max-shard was reached with the target still
    unplaced ("enough allowed shards" failed). -/
theorem placed_within (swr : Swr) (env : Env) (hmm : env.opt.minShard ≤ env.opt.maxShard)
    (hmp : 0 < env.opt.maxProc) (hmh : 0 ≤ env.opt.maxHead) (h : Hash) (e : St)
    (hgood : Gen.assignSkip e = false) (hbig : Gen.tooBig env.opt e = false) (hsz : 0 < e.series + e.total) :
    ∀ (scs : List Sched) (w : World), WPos env w → h ∈ w.active → w.explore.get h = some e →
      (∀ sc ∈ scs, ∀ k ∈ w.active, k ∈ sc.assign) →
      Held (cycles swr env w scs) h ∨ w.replicas + scs.length ≤ (cycles swr env w scs).replicas ∨
      ∃ pre, pre <+: scs ∧ ((cycles swr env w pre).replicas : Int) = env.opt.maxShard ∧ ¬ Held (cycles swr env w pre) h := by
  intro scs
  induction scs with
  | nil => intro w _ _ _ _; exact Or.inr (Or.inl (by simp [cycles]))
  | cons sc scs ih =>
    intro w hw ha he hfull
    by_cases hh : Held w h
    · exact Or.inl (held_cycles swr env hmm h (sc :: scs) w hw.toWInv ha hh)
    · by_cases hmax : (w.replicas : Int) = env.opt.maxShard
      · exact Or.inr (Or.inr ⟨[], List.nil_prefix, hmax, hh⟩)
      · have hlt : (w.replicas : Int) < env.opt.maxShard := by have := hw.max; omega
        have hnn := nonNeg_inputOf env w hw
        have hg := unheld_global env w h e hh he
        have hstep := step_placed_or_grows swr env w sc hw.rep
          (cycle_noCrash swr sc (inputOf env w [] false) (by show env.opt.maxProc ≠ 0; omega) hnn)
          (fun s hs => by rw [reported_keys_statusOf]; exact (ws_running hw.toWS s hs).nodup)
          (fun s hs => (ws_running hw.toWS s hs).idle) hlt hmp hmh
          (fun k => globalOf_nonneg (inputOf env w [] false) hnn k)
          (hfull sc List.mem_cons_self) ha (by rw [hg]; exact hgood) (by rw [hg]; exact hbig) (by rw [hg]; exact hsz)
        obtain ⟨hw', hact, hexp⟩ := cycleStep_wpos swr env w sc [] false hmm hw
        rw [cycles_cons]
        rcases hstep with hgrow | ⟨d, shd, hd, hshd, hhd⟩
        · have hgrow' : w.replicas < (cycleStep swr env w sc [] false).1.replicas := hgrow
          rcases ih _ hw' (by rw [hact]; exact ha) (by rw [hexp]; exact he)
              (fun sc' hsc' k hk => hfull sc' (List.mem_cons_of_mem _ hsc') k (by rw [hact] at hk; exact hk)) with
            h1 | h2 | ⟨pre, hpre, h3, h4⟩
          · exact Or.inl h1
          · refine Or.inr (Or.inl ?_)
            simp only [List.length_cons]
            omega
          · exact Or.inr (Or.inr ⟨sc :: pre, List.prefix_cons_inj sc |>.mpr hpre, by rw [cycles_cons]; exact h3,
              by rw [cycles_cons]; exact h4⟩)
        · have hheld : Held (cycleStep swr env w sc [] false).1 h :=
            ⟨d, shd, running_of_shards _ d shd hd hshd, hhd⟩
          exact Or.inl (held_cycles swr env hmm h scs _ hw'.toWInv (by rw [hact]; exact ha) hheld)

/-- … in particular within `max-shard − current + 1` cycles it is held, unless max-shard was reached
    with the target still unplaced -/
theorem placed_within_bound (swr : Swr) (env : Env) (hmm : env.opt.minShard ≤ env.opt.maxShard)
    (hmp : 0 < env.opt.maxProc) (hmh : 0 ≤ env.opt.maxHead) (h : Hash) (e : St)
    (hgood : Gen.assignSkip e = false) (hbig : Gen.tooBig env.opt e = false) (hsz : 0 < e.series + e.total)
    (scs : List Sched) (w : World) (hw : WPos env w) (ha : h ∈ w.active) (he : w.explore.get h = some e)
    (hfull : ∀ sc ∈ scs, ∀ k ∈ w.active, k ∈ sc.assign)
    (hlen : env.opt.maxShard < (w.replicas : Int) + scs.length) :
    Held (cycles swr env w scs) h ∨
      ∃ pre, pre <+: scs ∧ ((cycles swr env w pre).replicas : Int) = env.opt.maxShard ∧ ¬ Held (cycles swr env w pre) h := by
  rcases placed_within swr env hmm hmp hmh h e hgood hbig hsz scs w hw ha he hfull with h1 | h2 | h3
  · exact Or.inl h1
  · exfalso
    have hwf : ∀ (scs : List Sched) (w : World), WInv env w → WInv env (cycles swr env w scs) := by
      intro scs
      induction scs with
      | nil => intro w hw; exact hw
      | cons sc scs ih => intro w hw; rw [cycles_cons]; exact ih _ (cycleStep_winv swr env w sc [] false hmm hw).1
    have := (hwf scs w hw.toWInv).max
    omega
  · exact Or.inr h3

end Kvass.Loop

namespace Kvass.Loop
open Kvass Kvass.Coord Kvass.Spec

/-- freshly started sidecars and non-negative estimates: the invariant with sizes holds -/
theorem wpos_fresh (env : Env) (n : Nat) (active : List Hash) (explore : AL St) (hn : (n : Int) ≤ env.opt.maxShard)
    (he : ∀ e ∈ explore, 0 ≤ e.2.series ∧ 0 ≤ e.2.total) :
    WPos env { shards := List.replicate n freshShard, replicas := n, active := active, explore := explore } := by
  refine ⟨winv_fresh env n active explore hn, ?_, he⟩
  intro sh hm
  rw [List.mem_replicate] at hm
  rw [hm.2]; exact spos_fresh

theorem onShard_spos (w : World) (j : Nat) (f : Shard → Shard) (hws : WS w)
    (hf : ∀ sh, SInv sh → SPos sh → SPos (f sh)) (hp : ∀ sh ∈ w.shards, SPos sh) :
    (∀ sh ∈ (onShard w j f).shards, SPos sh) ∧ (onShard w j f).explore = w.explore := by
  unfold onShard
  split
  · cases hs : w.shards[j]? with
    | none => exact ⟨hp, rfl⟩
    | some sh =>
      simp only
      refine ⟨?_, by first | rfl | trivial⟩
      intro s hm
      rcases List.mem_or_eq_of_mem_set hm with hm | rfl
      · exact hp s hm
      · exact hf sh (hws.all sh (List.mem_of_getElem? hs)) (hp sh (List.mem_of_getElem? hs))
  · exact ⟨hp, rfl⟩

/-- the invariant with sizes is kept by cycles with any faults, by scrapes that deliver non-negative
    counts and by restarts -/
theorem step_wpos (swr : Swr) (env : Env) (hmm : env.opt.minShard ≤ env.opt.maxShard) (w : World) (op : Op)
    (hb : (match op with
      | .cycle _ _ _ => true
      | .scrape _ _ r => (match r with | some (a, b) => decide (0 ≤ a) && decide (0 ≤ b) | none => true)
      | .restart _ => true
      | .discover _ explore => explore.all fun e => decide (0 ≤ e.2.series) && decide (0 ≤ e.2.total)
      | _ => false) = true)
    (hw : WPos env w) : WPos env (step swr env w op) := by
  cases op with
  | cycle sc F b => exact (cycleStep_wpos swr env w sc F b hmm hw).1
  | scrape j k r =>
    have h1 := step_winv swr env hmm w (.scrape j k r) rfl hw.toWInv
    have hr : ∀ a b, r = some (a, b) → 0 ≤ a ∧ 0 ≤ b := by
      intro a b e; subst e
      simp only [Bool.and_eq_true, decide_eq_true_eq] at hb; exact hb
    obtain ⟨h2, h3⟩ := onShard_spos w j (fun sh => ⟨Sidecar.scrape sh.sc k r, sh.clock + 1⟩) hw.toWS
      (fun sh _ hp => spos_scrape sh k r hr hp) hw.pos
    exact ⟨h1, h2, by show ∀ e ∈ (onShard w j _).explore, _; rw [h3]; exact hw.expl⟩
  | restart j =>
    have h1 := step_winv swr env hmm w (.restart j) rfl hw.toWInv
    obtain ⟨h2, h3⟩ := onShard_spos w j restartShard hw.toWS (fun sh hs hp => spos_restart sh hs.cons hp) hw.pos
    exact ⟨h1, h2, by show ∀ e ∈ (onShard w j _).explore, _; rw [h3]; exact hw.expl⟩
  | update j req => cases hb
  | setReplicas n => cases hb
  | discover active explore =>
    simp only [List.all_eq_true, Bool.and_eq_true, decide_eq_true_eq] at hb
    exact ⟨⟨⟨hw.rep, hw.all⟩, hw.max⟩, hw.pos, hb⟩

/-- the operations of `step_wpos` -/
def tame : Op → Bool
  | .cycle _ _ _ => true
  | .scrape _ _ r => (match r with | some (a, b) => decide (0 ≤ a) && decide (0 ≤ b) | none => true)
  | .restart _ => true
  | .discover _ explore => explore.all fun e => decide (0 ≤ e.2.series) && decide (0 ≤ e.2.total)
  | _ => false

theorem run_wpos (swr : Swr) (env : Env) (hmm : env.opt.minShard ≤ env.opt.maxShard) :
    ∀ (ops : List Op) (w : World), (∀ op ∈ ops, tame op = true) → WPos env w → WPos env (run swr env w ops) := by
  intro ops
  induction ops with
  | nil => intro w _ hw; exact hw
  | cons op ops ih =>
    intro w hb hw
    refine ih (step swr env w op) (fun o ho => hb o (List.mem_cons_of_mem _ ho)) (step_wpos swr env hmm w op ?_ hw)
    have := hb op List.mem_cons_self
    cases op <;> exact this

/-- **the coordinator never crashes on what sidecars can report.**  After every history of cycles
    (any faults), scrapes that deliver non-negative counts, restarts and discovery changes with
    non-negative estimates — starting from freshly started sidecars — a coordination cycle with any
    fault pattern completes without crashing (max-process-series ≠ 0). -/
theorem no_crash_along_history (swr : Swr) (env : Env) (hmm : env.opt.minShard ≤ env.opt.maxShard)
    (hmp : env.opt.maxProc ≠ 0) (n : Nat) (active : List Hash) (explore : AL St) (hn : (n : Int) ≤ env.opt.maxShard)
    (he : ∀ e ∈ explore, 0 ≤ e.2.series ∧ 0 ≤ e.2.total) (ops : List Op) (hops : ∀ op ∈ ops, tame op = true)
    (sc : Sched) (F : List Fault) (b : Bool) :
    (cycle swr sc (inputOf env (run swr env
      { shards := List.replicate n freshShard, replicas := n, active := active, explore := explore } ops) F b)).crashed = false :=
  cycle_noCrash swr sc _ hmp (nonNeg_inputOf_f env _ F b (run_wpos swr env hmm ops _ hops (wpos_fresh env n active explore hn he)))

end Kvass.Loop

namespace Kvass.Loop
open Kvass Kvass.Coord Kvass.Spec

/-- every hash at most once in an update request (what the JSON body of `POST targets` gives) -/
def onceB (req : List Sidecar.Tgt) : Bool :=
  req.all fun t => (req.filter fun u => u.hash == t.hash).length == 1

/-- every operation of the closed-loop model, with the side conditions under which sizes stay
    non-negative and the StatefulSet within max-shard: scrapes deliver non-negative counts, estimates
    are non-negative, an assignment written from outside lists every hash once with non-negative
    sizes, an external resize stays within max-shard -/
def wellFormedOp (env : Env) : Op → Bool
  | .cycle _ _ _ => true
  | .scrape _ _ r => (match r with | some (a, b) => decide (0 ≤ a) && decide (0 ≤ b) | none => true)
  | .restart _ => true
  | .discover _ explore => explore.all fun e => decide (0 ≤ e.2.series) && decide (0 ≤ e.2.total)
  | .update _ req => onceB req && req.all fun t => decide (0 ≤ t.series) && decide (0 ≤ t.total)
  | .setReplicas n => decide ((n : Int) ≤ env.opt.maxShard)

theorem step_wpos_all (swr : Swr) (env : Env) (hmm : env.opt.minShard ≤ env.opt.maxShard) (w : World) (op : Op)
    (hb : wellFormedOp env op = true) (hw : WPos env w) : WPos env (step swr env w op) := by
  cases op with
  | cycle sc F b => exact step_wpos swr env hmm w _ rfl hw
  | scrape j k r => exact step_wpos swr env hmm w _ hb hw
  | restart j => exact step_wpos swr env hmm w _ rfl hw
  | discover active explore => exact step_wpos swr env hmm w _ hb hw
  | update j req =>
    simp only [wellFormedOp, Bool.and_eq_true, onceB, List.all_eq_true, beq_iff_eq, decide_eq_true_eq] at hb
    obtain ⟨honce, hpos⟩ := hb
    have ho : Props.C10.Once req := fun t ht => honce t ht
    obtain ⟨h1, h2, _⟩ := onShard_ws w j (fun sh => ⟨Sidecar.update sh.clock sh.sc req, sh.clock + 1⟩)
      (fun sh _ => sinv_update _ _ _ ho _) hw.toWS
    obtain ⟨h3, h4⟩ := onShard_spos w j (fun sh => ⟨Sidecar.update sh.clock sh.sc req, sh.clock + 1⟩) hw.toWS
      (fun sh _ hp => spos_update _ _ _ _ ho hpos hp.st) hw.pos
    exact ⟨⟨h1, by show ((onShard w j _).replicas : Int) ≤ _; rw [h2]; exact hw.max⟩, h3,
      by show ∀ e ∈ (onShard w j _).explore, _; rw [h4]; exact hw.expl⟩
  | setReplicas n =>
    simp only [wellFormedOp, decide_eq_true_eq] at hb
    exact ⟨⟨ws_resize w n hw.toWS, hb⟩, spos_resize w n hw.toWS hw.pos, hw.expl⟩

theorem run_wpos_all (swr : Swr) (env : Env) (hmm : env.opt.minShard ≤ env.opt.maxShard) :
    ∀ (ops : List Op) (w : World), (∀ op ∈ ops, wellFormedOp env op = true) → WPos env w → WPos env (run swr env w ops) := by
  intro ops
  induction ops with
  | nil => intro w _ hw; exact hw
  | cons op ops ih =>
    intro w hb hw
    exact ih (step swr env w op) (fun o ho => hb o (List.mem_cons_of_mem _ ho))
      (step_wpos_all swr env hmm w op (hb op List.mem_cons_self) hw)

/-- **no crash, whatever happened before**: after every history in the closed-loop model — cycles
    with any faults, scrapes, restarts, discovery changes, assignments written from outside, external
    resizing (with the side conditions of `wellFormedOp`) — starting from freshly started sidecars, a
    coordination cycle with any fault pattern completes without crashing (max-process-series ≠ 0). -/
theorem no_crash_any_history (swr : Swr) (env : Env) (hmm : env.opt.minShard ≤ env.opt.maxShard)
    (hmp : env.opt.maxProc ≠ 0) (n : Nat) (active : List Hash) (explore : AL St) (hn : (n : Int) ≤ env.opt.maxShard)
    (he : ∀ e ∈ explore, 0 ≤ e.2.series ∧ 0 ≤ e.2.total) (ops : List Op) (hops : ∀ op ∈ ops, wellFormedOp env op = true)
    (sc : Sched) (F : List Fault) (b : Bool) :
    (cycle swr sc (inputOf env (run swr env
      { shards := List.replicate n freshShard, replicas := n, active := active, explore := explore } ops) F b)).crashed = false :=
  cycle_noCrash swr sc _ hmp (nonNeg_inputOf_f env _ F b (run_wpos_all swr env hmm ops _ hops (wpos_fresh env n active explore hn he)))

end Kvass.Loop
