/-
  C04 core: every placement recorded in the ghost log of a cycle was guarded by both limits,
  evaluated on the destination's *running* load at that moment.  For every schedule.
-/
import Kvass.Model.Coord
import Kvass.Proofs.Sites
import Kvass.Proofs.AL

namespace Kvass.Coord
open Kvass

/-- a placement respects the limits on the load the destination had when it was made -/
def PlFits (o : Opt) (pl : Placement) : Prop :=
  (o.maxHead ≠ 0 → pl.headBefore + pl.series < o.maxHead) ∧ pl.procBefore + pl.total < o.maxProc

def LogOK (o : Opt) (log : List Placement) : Prop := ∀ pl ∈ log, PlFits o pl

theorem logOK_nil (o : Opt) : LogOK o [] := by intro pl h; cases h

theorem logOK_snoc {o : Opt} {log : List Placement} {pl : Placement}
    (h : LogOK o log) (hp : PlFits o pl) : LogOK o (log ++ [pl]) := by
  intro q hq
  rcases List.mem_append.mp hq with hq | hq
  · exact h q hq
  · simp at hq; subst hq; exact hp

theorem firstDst_spec {ss : List SI} {i j : Nat} {cond : SI → Bool} (h : firstDst ss i cond = some j) :
    ∃ s, ss[j]? = some s ∧ s.changeable = true ∧ j ≠ i ∧ cond s = true := by
  unfold firstDst at h
  obtain ⟨⟨s, k⟩, hmem, hk⟩ := List.exists_of_findSome?_eq_some h
  simp only at hk
  split at hk
  · rename_i hc
    simp at hk
    subst hk
    rw [List.mem_zipIdx_iff_getElem?] at hmem
    simp at hmem hc
    exact ⟨s, hmem, hc.1.1, hc.1.2, hc.2⟩
  · simp at hk

theorem transfer_logOK {o : Opt} (k : Nat) (c : CS) (i j : Nat) (h : Hash) (hc : LogOK o c.log)
    (hfit : ∀ f t tar, c.shards[i]? = some f → c.shards[j]? = some t → f.scraping.get h = some tar →
      (o.maxHead ≠ 0 → t.rt.head + tar.series < o.maxHead) ∧ t.rt.proc + tar.total < o.maxProc) :
    LogOK o (transfer k c i j h).log := by
  unfold transfer
  split
  · rename_i f t hf ht
    split
    · exact hc
    · rename_i tar htar
      exact logOK_snoc hc (hfit f t tar hf ht htar)
  · exact hc

theorem transfer_crashed (k : Nat) (c : CS) (i j : Nat) (h : Hash) :
    (transfer k c i j h).crashed = c.crashed := by
  unfold transfer
  split
  · split <;> rfl
  · rfl

theorem apLoop_logOK (o : Opt) (i : Nat) (exp : Int) :
    ∀ (hs : List Hash) (c : CS) (total : Int), LogOK o c.log → LogOK o (apLoop o i exp hs c total).1.log := by
  intro hs
  induction hs with
  | nil => intro c total h; simpa [apLoop] using h
  | cons h hs ih =>
    intro c total hc
    unfold apLoop
    split
    · exact hc
    · split
      · exact hc
      · rename_i s hs'
        split
        · exact ih c total hc
        · rename_i tar htar
          split
          · exact ih c total hc
          · split
            · exact hc
            · split
              · rename_i j hj
                apply ih
                apply transfer_logOK 1 c i j h hc
                intro f t tar' hf ht htar'
                obtain ⟨s2, hs2, _, _, hcond⟩ := firstDst_spec hj
                have e1 : f = s := by rw [hs'] at hf; exact (Option.some.inj hf).symm
                have e2 : t = s2 := by rw [hs2] at ht; exact (Option.some.inj ht).symm
                subst e1 e2
                have e3 : tar' = tar := by rw [htar] at htar'; exact (Option.some.inj htar').symm
                subst e3
                have := (Sites.apDst_iff o t.rt tar').mp hcond
                refine ⟨fun hne => ?_, this.2⟩
                rcases this.1 with h0 | h1
                · exact absurd h0 hne
                · exact h1
              · exact ih c total hc

theorem ahLoop_logOK (o : Opt) (i : Nat) (exp : Int) :
    ∀ (hs : List Hash) (c : CS) (total : Int), LogOK o c.log → LogOK o (ahLoop o i exp hs c total).1.log := by
  intro hs
  induction hs with
  | nil => intro c total h; simpa [ahLoop] using h
  | cons h hs ih =>
    intro c total hc
    unfold ahLoop
    split
    · exact hc
    · split
      · exact hc
      · rename_i s hs'
        split
        · exact ih c total hc
        · rename_i tar htar
          split
          · exact ih c total hc
          · split
            · exact hc
            · split
              · rename_i j hj
                apply ih
                apply transfer_logOK 2 c i j h hc
                intro f t tar' hf ht htar'
                obtain ⟨s2, hs2, _, _, hcond⟩ := firstDst_spec hj
                have e1 : f = s := by rw [hs'] at hf; exact (Option.some.inj hf).symm
                have e2 : t = s2 := by rw [hs2] at ht; exact (Option.some.inj ht).symm
                subst e1 e2
                have e3 : tar' = tar := by rw [htar] at htar'; exact (Option.some.inj htar').symm
                subst e3
                have := (Sites.ahDst_iff o t.rt tar').mp hcond
                exact ⟨fun _ => this.1, this.2⟩
              · exact ih c total hc

theorem allevProcShard_logOK (o : Opt) (exp : Int) (order : List Hash) (c : CS) (i : Nat)
    (hc : LogOK o c.log) : LogOK o (allevProcShard o exp order c i).1.log := by
  unfold allevProcShard
  split
  · exact hc
  · simp only
    split
    · exact hc
    · have := apLoop_logOK o i exp order c (loadProc ‹SI›) hc
      generalize apLoop o i exp order c (loadProc ‹SI›) = r at this
      obtain ⟨c', total', aborted⟩ := r
      simp only at this ⊢
      split
      · exact this
      · split <;> exact this

theorem allevHeadShard_logOK (o : Opt) (exp : Int) (order : List Hash) (c : CS) (i : Nat)
    (hc : LogOK o c.log) : LogOK o (allevHeadShard o exp order c i).1.log := by
  unfold allevHeadShard
  split
  · exact hc
  · simp only
    split
    · exact hc
    · have := ahLoop_logOK o i exp order c (loadHead ‹SI›) hc
      generalize ahLoop o i exp order c (loadHead ‹SI›) = r at this
      obtain ⟨c', total', aborted⟩ := r
      simp only at this ⊢
      split
      · exact this
      · split <;> exact this

theorem allevProcAll_logOK (swr : Swr) (o : Opt) (orders : List (List Hash)) :
    ∀ (is : List Nat) (c : CS) (need : Int), LogOK o c.log →
      LogOK o (allevProcAll swr o orders is c need).1.log := by
  intro is
  induction is with
  | nil => intro c need h; simpa [allevProcAll] using h
  | cons i is ih =>
    intro c need hc
    unfold allevProcAll
    split
    · exact ih c need hc
    · split
      · have := allevProcShard_logOK o (Gen.procExpect swr o) (orderFor orders i) c i hc
        generalize allevProcShard o (Gen.procExpect swr o) (orderFor orders i) c i = r at this
        obtain ⟨c', n⟩ := r
        exact ih c' _ this
      · exact ih c need hc

theorem allevHeadAll_logOK (swr : Swr) (o : Opt) (orders : List (List Hash)) :
    ∀ (is : List Nat) (c : CS) (need : Int), LogOK o c.log →
      LogOK o (allevHeadAll swr o orders is c need).1.log := by
  intro is
  induction is with
  | nil => intro c need h; simpa [allevHeadAll] using h
  | cons i is ih =>
    intro c need hc
    unfold allevHeadAll
    split
    · exact ih c need hc
    · split
      · split
        · rename_i ex _
          have := allevHeadShard_logOK o (Gen.headExpect swr o ex) (orderFor orders i) c i hc
          generalize allevHeadShard o (Gen.headExpect swr o ex) (orderFor orders i) c i = r at this
          obtain ⟨c', n⟩ := r
          exact ih c' _ this
        · exact ih c need hc
      · exact ih c need hc

theorem alleviate_logOK (swr : Swr) (o : Opt) (sc : Sched) (c : CS) (hc : LogOK o c.log) :
    LogOK o (alleviate swr o sc c).1.log := by
  unfold alleviate
  split
  · exact hc
  · simp only
    have h1 := allevProcAll_logOK swr o sc.allevProc (List.range c.shards.length) c 0 hc
    generalize allevProcAll swr o sc.allevProc (List.range c.shards.length) c 0 = r1 at h1
    obtain ⟨c1, np⟩ := r1
    simp only at h1 ⊢
    split
    · have h2 := allevHeadAll_logOK swr o sc.allevHead (List.range c.shards.length) c1 0 h1
      generalize allevHeadAll swr o sc.allevHead (List.range c.shards.length) c1 0 = r2 at h2
      obtain ⟨c2, nh⟩ := r2
      exact h2
    · exact h1

/-! ### getFreeShard -/

theorem mem_candidates {o : Opt} {ss : List SI} {n : Nat} {sp : Space} {j : Nat}
    (h : j ∈ candidates o ss n sp) :
    ∃ s, ss[j]? = some s ∧ j < n ∧ s.changeable = true ∧ Gen.fit o s.rt sp = true := by
  unfold candidates at h
  obtain ⟨⟨s, k⟩, hmem, hk⟩ := List.mem_filterMap.mp h
  simp only at hk
  split at hk
  · rename_i hc
    simp at hk; subst hk
    rw [List.mem_zipIdx_iff_getElem?] at hmem
    simp [List.getElem?_take] at hmem hc
    refine ⟨s, hmem.2, hmem.1, ?_, hc.2⟩
    have := hc.1
    simpa [Gen.fitSkip] using this
  · simp at hk

theorem getFreeShard_some {o : Opt} {ss : List SI} {n : Nat} {sp : Space} {picks picks' : List Nat} {j : Nat}
    (h : getFreeShard o ss n sp picks = (.some j, picks')) :
    ∃ s, ss[j]? = some s ∧ j < n ∧ s.changeable = true ∧ Gen.fit o s.rt sp = true := by
  unfold getFreeShard at h
  split at h
  · simp at h
  · rename_i j0 js hc
    split at h
    · simp at h
      obtain ⟨rfl, _⟩ := h
      exact mem_candidates (hc ▸ List.mem_cons_self)
    · simp only at h
      split at h
      · simp at h
      · simp at h
        obtain ⟨hj, _⟩ := h
        apply mem_candidates (o := o) (ss := ss) (n := n) (sp := sp)
        rw [hc, ← hj]
        cases hg : (j0 :: js)[picks.head?.getD 0 % (js.length + 1)]? with
        | none => simp
        | some v => simpa using List.mem_of_getElem? hg

theorem place_logOK {o : Opt} (k : Nat) (c : CS) (j : Nat) (h : Hash) (st : St) (hc : LogOK o c.log)
    (hfit : ∀ t, c.shards[j]? = some t →
      (o.maxHead ≠ 0 → t.rt.head + st.series < o.maxHead) ∧ t.rt.proc + st.total < o.maxProc) :
    LogOK o (place k c j h st).log := by
  unfold place
  split
  · exact hc
  · rename_i t ht
    exact logOK_snoc hc (hfit t ht)

theorem fit_plfits {o : Opt} {r : Rt} {a b : Int} (h : Gen.fit o r ⟨a, b⟩ = true) :
    (o.maxHead ≠ 0 → r.head + a < o.maxHead) ∧ r.proc + b < o.maxProc := by
  have := (Sites.fit_iff o r ⟨a, b⟩).mp h
  refine ⟨fun hne => ?_, this.2⟩
  rcases this.1 with h0 | h1
  · exact absurd h0 hne
  · exact h1

theorem assignLoop_logOK (o : Opt) (scr : List Hash) (glob : Hash → St) :
    ∀ (hs : List Hash) (c : CS) (picks : List Nat) (need : Space), LogOK o c.log →
      LogOK o (assignLoop o scr glob hs c picks need).1.log := by
  intro hs
  induction hs with
  | nil => intro c picks need h; simpa [assignLoop] using h
  | cons h hs ih =>
    intro c picks need hc
    unfold assignLoop
    split
    · exact hc
    · split
      · exact ih c picks need hc
      · simp only
        split
        · exact ih c picks need hc
        · split
          · exact ih c picks need hc
          · split
            · rename_i j picks' hg
              apply ih
              apply place_logOK 0 c j h (glob h) hc
              intro t ht
              obtain ⟨s, hs, _, _, hfit⟩ := getFreeShard_some hg
              have e : t = s := by rw [hs] at ht; exact (Option.some.inj ht).symm
              subst e
              rw [Sites.spaceOfHead_eq, Sites.spaceOfProc_eq] at hfit
              exact fit_plfits hfit
            · exact ih c _ _ hc
            · exact hc

theorem assign_logOK (o : Opt) (active : List Hash) (glob : Hash → St) (sc : Sched) (c : CS)
    (hc : LogOK o c.log) : LogOK o (assign o active glob sc c).1.log := by
  unfold assign
  exact assignLoop_logOK o _ glob _ c _ _ hc

/-! ### scale-down -/

theorem sbiLoop_logOK (o : Opt) (i : Nat) :
    ∀ (hs : List Hash) (c : CS) (picks : List Nat), LogOK o c.log →
      LogOK o (sbiLoop o i hs c picks).1.log := by
  intro hs
  induction hs with
  | nil => intro c picks h; simpa [sbiLoop] using h
  | cons h hs ih =>
    intro c picks hc
    unfold sbiLoop
    split
    · exact hc
    · rename_i src hsrc
      split
      · exact ih c picks hc
      · rename_i tar htar
        split
        · exact ih c picks hc
        · split
          · rename_i j picks' hg
            apply ih
            apply transfer_logOK 3 c i j h hc
            intro f t tar' hf ht htar'
            obtain ⟨s2, hs2, _, _, hfit⟩ := getFreeShard_some hg
            have e1 : f = src := by rw [hsrc] at hf; exact (Option.some.inj hf).symm
            have e2 : t = s2 := by rw [hs2] at ht; exact (Option.some.inj ht).symm
            subst e1 e2
            have e3 : tar' = tar := by rw [htar] at htar'; exact (Option.some.inj htar').symm
            subst e3
            rw [Sites.sbiSpaceHead_eq, Sites.sbiSpaceProc_eq] at hfit
            exact fit_plfits hfit
          · exact hc
          · exact hc

theorem sdLoop_logOK (o : Opt) (sc : Sched) :
    ∀ (k : Nat) (c : CS) (picks : List Nat), LogOK o c.log → LogOK o (sdLoop o sc k c picks).log := by
  intro k
  induction k with
  | zero => intro c picks h; simpa [sdLoop] using h
  | succ k ih =>
    intro c picks hc
    unfold sdLoop
    split
    · exact ih c picks hc
    · split
      · exact ih c picks hc
      · simp only
        split
        · exact hc
        · rename_i src _ _ _
          have := sbiLoop_logOK o (k + 1)
            (uniq ((orderFor sc.becomeIdle (k + 1)).filter src.scraping.keys.contains)) c picks hc
          generalize sbiLoop o (k + 1)
            (uniq ((orderFor sc.becomeIdle (k + 1)).filter src.scraping.keys.contains)) c picks = r at this
          obtain ⟨c', picks', ok⟩ := r
          simp only at this ⊢
          split
          · exact this
          · exact ih c' picks' this

theorem tryScaleDown_logOK (o : Opt) (sc : Sched) (c : CS) (picks : List Nat) (hc : LogOK o c.log) :
    LogOK o (tryScaleDown o sc c picks).2.log := by
  unfold tryScaleDown
  exact sdLoop_logOK o sc _ c picks hc

/-- **C04 (core)**: for every schedule and every `seriesWithRate`, every placement of a cycle is
    strictly below both limits on the destination's running load. -/
theorem cycle_logOK (swr : Swr) (sc : Sched) (inp : Input) : LogOK inp.opt (cycle swr sc inp).log := by
  unfold cycle
  simp only
  split
  · exact logOK_nil _
  · have h2 := alleviate_logOK swr inp.opt sc
      { shards := gc inp.opt inp.active ((inp.probes.map getInfo).map (·.1)) } (logOK_nil _)
    generalize alleviate swr inp.opt sc
      { shards := gc inp.opt inp.active ((inp.probes.map getInfo).map (·.1)) } = r2 at h2
    obtain ⟨c2, need1⟩ := r2
    simp only at h2 ⊢
    have h3 := assign_logOK inp.opt inp.active
      (globalOf ((inp.probes.map getInfo).map (·.1)) inp.explore) sc c2 h2
    generalize assign inp.opt inp.active
      (globalOf ((inp.probes.map getInfo).map (·.1)) inp.explore) sc c2 = r3 at h3
    obtain ⟨c3, picks, need2⟩ := r3
    simp only at h3 ⊢
    split
    · exact h3
    · split
      · split
        · exact h3
        · exact h3
      · split
        · have h4 := tryScaleDown_logOK inp.opt sc c3 picks h3
          generalize tryScaleDown inp.opt sc c3 picks = r4 at h4
          obtain ⟨scale, c4⟩ := r4
          simp only at h4 ⊢
          split <;> exact h4
        · split <;> exact h3

end Kvass.Coord
