/-
  `gcTargets` as a whole, any number of holders: when every in-sync copy of a discovered target has
  been scraped three times, at most one copy survives the pass — whatever the number of holders and
  whatever their states.
-/
import Kvass.Proofs.LoopSettle2

namespace Kvass.Coord
open Kvass Kvass.Spec

/-- the load comparison of rule 3 is total on distinct positions -/
theorem gcLess_total (o : Opt) (r1 r2 : Rt) (i j : Nat) (hij : i ≠ j) :
    Gen.gcLess o r1 r2 i j = true ∨ Gen.gcLess o r2 r1 j i = true := by
  unfold Gen.gcLess
  simp only [Bool.or_eq_true, Bool.and_eq_true, decide_eq_true_eq, Bool.not_eq_true', decide_eq_false_iff_not]
  by_cases hz : o.maxHead = 0
  · simp only [hz, not_true_eq_false, false_and, true_and, false_or]
    omega
  · simp only [hz, not_false_eq_true, true_and, false_and, or_false]
    omega

/-- copy `v` at position `k` is not deleted on account of copy `vj` at position `j` -/
def NoTrig (o : Opt) (ss0 : List SI) (k : Nat) (v : St) (j : Nat) (vj : St) : Prop :=
  ¬ (Gen.gcRule2 v vj = true ∨ (Gen.gcSame v vj = true ∧ Gen.gcLess o (rtAt ss0 k) (rtAt ss0 j) k j = true))

/-- two old copies cannot both spare each other -/
theorem noTrig_exclusive (o : Opt) (ss0 : List SI) (k j : Nat) (v vj : St) (hkj : k ≠ j)
    (h1 : NoTrig o ss0 k v j vj) (h2 : NoTrig o ss0 j vj k v) : False := by
  unfold NoTrig at h1 h2
  cases hs : v.state <;> cases hsj : vj.state
  · rcases gcLess_total o (rtAt ss0 k) (rtAt ss0 j) k j hkj with e | e
    · exact h1 (Or.inr ⟨by simp [Gen.gcSame, hs, hsj], e⟩)
    · exact h2 (Or.inr ⟨by simp [Gen.gcSame, hs, hsj], e⟩)
  · exact h2 (Or.inl (by simp [Gen.gcRule2, hs, hsj]))
  · exact h1 (Or.inl (by simp [Gen.gcRule2, hs, hsj]))
  · rcases gcLess_total o (rtAt ss0 k) (rtAt ss0 j) k j hkj with e | e
    · exact h1 (Or.inr ⟨by simp [Gen.gcSame, hs, hsj], e⟩)
    · exact h2 (Or.inr ⟨by simp [Gen.gcSame, hs, hsj], e⟩)

/-- **any number of holders**: all shards in sync, every copy of the discovered target `h` scraped
    three times ⇒ after `gcTargets` at most one shard still holds `h`. -/
theorem gc_old_unique (o : Opt) (active : List Hash) (ss0 : List SI)
    (hnd0 : ∀ (k : Nat) (s : SI), ss0[k]? = some s → s.scraping.keys.Nodup)
    (hall : ∀ (i : Nat) (s : SI), ss0[i]? = some s → s.changeable = true)
    (h : Hash) (hact : active.contains h = true)
    (hold : ∀ (i : Nat) (v : St), entry ss0 i h = some v → 3 ≤ v.times) :
    ∀ k1 k2, k1 ≠ k2 → entry (gc o active ss0) k1 h ≠ none → entry (gc o active ss0) k2 h ≠ none → False := by
  let J : Nat → List SI → Prop := fun a ss =>
    (∀ k, a ≤ k → entry ss k h = entry ss0 k h) ∧
    (∀ k v, k < a → entry ss k h = some v →
      (∀ j, k < j → entry ss0 j h = none) ∨
      (entry ss0 k h = some v ∧ ∀ j vj, k < j → entry ss0 j h = some vj → NoTrig o ss0 k v j vj)) ∧
    (∀ k1 k2, k1 < a → k2 < a → k1 ≠ k2 → entry ss k1 h ≠ none → entry ss k2 h ≠ none → False)
  have hJ : J ss0.length (gc o active ss0) := by
    apply gc_ind o active ss0 J hnd0
    · exact ⟨fun _ _ => rfl, fun k v hk => by omega, fun k1 k2 hk => by omega⟩
    · intro a ss ha fr ⟨jA, jB, jC⟩
      obtain ⟨_, tother, tself⟩ := turn_spec o active ss0 ss a hnd0 fr
      -- the shard whose turn it is, as reported
      have hsa : ss[a]? = ss0[a]? := fr.rest a (Nat.le_refl _)
      obtain ⟨s, hs0⟩ : ∃ s, ss0[a]? = some s := ⟨ss0[a], List.getElem?_eq_getElem ha⟩
      have hs : ss[a]? = some s := by rw [hsa, hs0]
      have hch : s.changeable = true := hall a s hs0
      have hrt : ∀ k sk, ss[k]? = some sk → sk.rt = rtAt ss0 k ∧ sk.changeable = true := by
        intro k sk hk
        obtain ⟨s0k, h0k, c0, r0⟩ := fr.flags k sk hk
        exact ⟨by rw [r0, rtAt_of h0k], by rw [c0]; exact hall k s0k h0k⟩
      -- what the turn leaves of shard a's copy
      have hself := tself s hs h
      simp only [hch, if_true] at hself
      refine ⟨?_, ?_, ?_⟩
      · intro k hk
        rw [tother k h (by omega)]
        exact jA k (by omega)
      · intro k v hk hv
        by_cases hka : k = a
        · subst hka
          rw [hself] at hv
          cases hva : s.scraping.get h with
          | none => rw [hva] at hv; cases hv
          | some va =>
            rw [hva] at hv
            simp only at hv
            have he0 : entry ss0 k h = some va := by rw [entry_of hs0]; exact hva
            have h3 := hold k va he0
            unfold gcOutcome at hv
            split at hv
            · cases hv
            · rename_i hdec
              have hdec' : gcDecide o active ss k s h va = false := by simpa using hdec
              have hnotrig : gcOtherTriggers o ss k s va h = false := by
                unfold gcDecide at hdec'
                simp only [hact, young_false h3, Bool.not_true, Bool.false_eq_true, if_false] at hdec'
                exact hdec'
              split at hv
              · -- reverted: nobody else holds it
                rename_i hrev
                left
                intro j hj
                cases hej : entry ss0 j h with
                | none => rfl
                | some vj =>
                  exfalso
                  have hcur : entry ss j h = some vj := by rw [jA j (by omega)]; exact hej
                  obtain ⟨sj, hsj, hgj⟩ := entry_some hcur
                  have hheld : gcHeldElsewhere ss k h = true :=
                    (gcHeldElsewhere_iff ss k h).mpr ⟨j, sj, vj, by omega, hsj, (hrt j sj hsj).2, hgj⟩
                  unfold gcReverts at hrev
                  simp [hheld, Gen.gcRevert] at hrev
              · right
                simp only [Option.some.injEq] at hv
                subst hv
                refine ⟨he0, ?_⟩
                intro j vj hj hej
                have hcur : entry ss j h = some vj := by rw [jA j (by omega)]; exact hej
                obtain ⟨sj, hsj, hgj⟩ := entry_some hcur
                intro htr
                have : gcOtherTriggers o ss k s va h = true := by
                  rw [gcOtherTriggers_iff]
                  refine ⟨j, sj, vj, by omega, hsj, (hrt j sj hsj).2, hgj, ?_, ?_⟩
                  · have := hold j vj hej
                    simp [Gen.gcOtherOk, Gen.minWait]; omega
                  · rw [(hrt k s hs).1, (hrt j sj hsj).1]
                    exact htr
                rw [this] at hnotrig; cases hnotrig
        · have hk' : k < a := by omega
          rw [tother k h hka] at hv
          exact jB k v hk' hv
      · intro k1 k2 hk1 hk2 hne h1 h2
        -- a pair not involving `a` is an old pair; otherwise use what was recorded for the earlier one
        by_cases h1a : k1 = a
        · by_cases h2a : k2 = a
          · exact hne (h1a.trans h2a.symm)
          · subst h1a
            have hk2' : k2 < k1 := by omega
            rw [tother k2 h h2a] at h2
            -- symmetric case below with the roles swapped
            cases hv2 : entry ss k2 h with
            | none => exact h2 hv2
            | some v2 =>
              cases hva : s.scraping.get h with
              | none => rw [hself, hva] at h1; exact h1 rfl
              | some va =>
                have he0 : entry ss0 k1 h = some va := by rw [entry_of hs0]; exact hva
                rcases jB k2 v2 hk2' hv2 with hnone | ⟨he2, hnt2⟩
                · rw [hnone k1 hk2'] at he0; cases he0
                · have n2 := hnt2 k1 va hk2' he0
                  -- shard k1 (= a) kept its copy although k2 holds an old one
                  rw [hself, hva] at h1
                  simp only at h1
                  have h3 := hold k1 va he0
                  unfold gcOutcome at h1
                  split at h1
                  · exact h1 rfl
                  · rename_i hdec
                    have hnotrig : gcOtherTriggers o ss k1 s va h = false := by
                      have hdec' : gcDecide o active ss k1 s h va = false := by simpa using hdec
                      unfold gcDecide at hdec'
                      simp only [hact, young_false h3, Bool.not_true, Bool.false_eq_true, if_false] at hdec'
                      exact hdec'
                    obtain ⟨s2, hs2, hg2⟩ := entry_some hv2
                    have n1 : NoTrig o ss0 k1 va k2 v2 := by
                      intro htr
                      have : gcOtherTriggers o ss k1 s va h = true := by
                        rw [gcOtherTriggers_iff]
                        refine ⟨k2, s2, v2, h2a, hs2, (hrt k2 s2 hs2).2, hg2, ?_, ?_⟩
                        · have := hold k2 v2 he2
                          simp [Gen.gcOtherOk, Gen.minWait]; omega
                        · rw [(hrt k1 s hs).1, (hrt k2 s2 hs2).1]
                          exact htr
                      rw [this] at hnotrig; cases hnotrig
                    exact noTrig_exclusive o ss0 k1 k2 va v2 hne n1 n2
        · by_cases h2a : k2 = a
          · subst h2a
            have hk1' : k1 < k2 := by omega
            rw [tother k1 h h1a] at h1
            cases hv1 : entry ss k1 h with
            | none => exact h1 hv1
            | some v1 =>
              cases hva : s.scraping.get h with
              | none => rw [hself, hva] at h2; exact h2 rfl
              | some va =>
                have he0 : entry ss0 k2 h = some va := by rw [entry_of hs0]; exact hva
                rcases jB k1 v1 hk1' hv1 with hnone | ⟨he1, hnt1⟩
                · rw [hnone k2 hk1'] at he0; cases he0
                · have n1 := hnt1 k2 va hk1' he0
                  rw [hself, hva] at h2
                  simp only at h2
                  have h3 := hold k2 va he0
                  unfold gcOutcome at h2
                  split at h2
                  · exact h2 rfl
                  · rename_i hdec
                    have hnotrig : gcOtherTriggers o ss k2 s va h = false := by
                      have hdec' : gcDecide o active ss k2 s h va = false := by simpa using hdec
                      unfold gcDecide at hdec'
                      simp only [hact, young_false h3, Bool.not_true, Bool.false_eq_true, if_false] at hdec'
                      exact hdec'
                    obtain ⟨s1, hs1, hg1⟩ := entry_some hv1
                    have n2 : NoTrig o ss0 k2 va k1 v1 := by
                      intro htr
                      have : gcOtherTriggers o ss k2 s va h = true := by
                        rw [gcOtherTriggers_iff]
                        refine ⟨k1, s1, v1, h1a, hs1, (hrt k1 s1 hs1).2, hg1, ?_, ?_⟩
                        · have := hold k1 v1 he1
                          simp [Gen.gcOtherOk, Gen.minWait]; omega
                        · rw [(hrt k2 s hs).1, (hrt k1 s1 hs1).1]
                          exact htr
                      rw [this] at hnotrig; cases hnotrig
                    exact noTrig_exclusive o ss0 k1 k2 v1 va hne n1 n2
          · rw [tother k1 h h1a] at h1
            rw [tother k2 h h2a] at h2
            exact jC k1 k2 (by omega) (by omega) hne h1 h2
  intro k1 k2 hne h1 h2
  have hlen : (gc o active ss0).length = ss0.length := (gc_inv o active ss0).len
  have hlt : ∀ k, entry (gc o active ss0) k h ≠ none → k < ss0.length := by
    intro k hk
    rcases Nat.lt_or_ge k ss0.length with hl | hl
    · exact hl
    · exfalso; apply hk
      unfold entry
      rw [List.getElem?_eq_none (by rw [hlen]; exact hl)]; rfl
  exact hJ.2.2 k1 k2 (hlt k1 h1) (hlt k2 h2) hne h1 h2

end Kvass.Coord
