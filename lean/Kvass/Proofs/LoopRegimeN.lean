/-
  Convergence without overload for any number of holders: once every copy has been scraped three
  times, one fault-free cycle leaves every target on exactly one sidecar, the next one makes every
  copy normal.
-/
import Kvass.Proofs.LoopRegime
import Kvass.Proofs.CoordGcOld

namespace Kvass.Loop
open Kvass Kvass.Coord Kvass.Spec

theorem regimeN_back (swr : Swr) (env : Env) (w : World) (sc : Sched) (r : RegimeN env w) :
    ∀ (i : Nat) (sh' : Shard), (step swr env w (.cycle sc [] false)).running[i]? = some sh' →
      ∃ sh, w.running[i]? = some sh ∧ ∀ h v', (statusOf sh').get h = some v' → ∃ v, (statusOf sh).get h = some v ∧
          (v'.state = v.state ∨ v'.state = .normal) ∧
          entry (gc env.opt w.active (infos0 (inputOf env w [] false))) i h ≠ none := by
  obtain ⟨e1, _, e3⟩ := regime_step_full swr env w sc r
  have hrl := running_length w r.rep
  intro i sh' hrun'
  obtain ⟨hil, hsi⟩ := running_inv hrun'
  rw [e1] at hil
  have hrun : w.running[i]? = some w.running[i] := by simp [hrl, hil]
  obtain ⟨sh'', h1, h2⟩ := e3 i _ hrun
  rw [hsi] at h1; cases h1
  exact ⟨_, hrun, h2⟩

/-- **the N-holder regime is kept by a fault-free cycle** -/
theorem regimeN_cycle (swr : Swr) (env : Env) (w : World) (sc : Sched) (r : RegimeN env w) :
    RegimeN env (step swr env w (.cycle sc [] false)) := by
  obtain ⟨e1, e2, _⟩ := regime_step_full swr env w sc r
  have hmm : env.opt.minShard ≤ env.opt.maxShard := by have := r.minOk; have := r.max; omega
  have hwinv : WInv env (step swr env w (.cycle sc [] false)) := (cycleStep_winv swr env w sc [] false hmm r.toWInv).1
  refine ⟨hwinv, r.noRelief, r.noDown, by rw [e1]; exact r.minOk, ?_, ?_⟩
  · intro sh' hm h v' hv'
    obtain ⟨i, hi⟩ := List.getElem?_of_mem hm
    obtain ⟨sh, hri, rel⟩ := regimeN_back swr env w sc r i sh' hi
    obtain ⟨v, hg, _⟩ := rel h v' hv'
    rw [e2]
    exact r.activeOnly sh (List.mem_of_getElem? hri) h v hg
  · intro h ha
    rw [e2] at ha
    rcases r.allHeld h ha with h1 | h1
    · exact Or.inl (held_step swr env w sc h r.toWInv ha h1)
    · exact Or.inr (unplaceable_of_explore (regime_step_explore swr env w sc r) h1)

/-- **… and by scrapes** -/
theorem regimeN_scrapes (swr : Swr) (env : Env) (w : World) (ops : List Op) (hall : ∀ op ∈ ops, isScrape op = true)
    (r : RegimeN env w) : RegimeN env (run swr env w ops) := by
  obtain ⟨e1, e2, e3x, _, e5⟩ := run_scrapes swr env ops w hall
  have hmm : env.opt.minShard ≤ env.opt.maxShard := by have := r.minOk; have := r.max; omega
  have hwinv : WInv env (run swr env w ops) := by
    apply run_winv swr env hmm ops w _ r.toWInv
    intro op hop
    have := hall op hop
    cases op <;> simp_all [isScrape]
  have hrl := running_length w r.rep
  refine ⟨hwinv, r.noRelief, r.noDown, by rw [e1]; exact r.minOk, ?_, ?_⟩
  · intro sh' hm h v' hv'
    obtain ⟨i, hi⟩ := List.getElem?_of_mem hm
    obtain ⟨hil, _⟩ := running_inv hi
    rw [e1] at hil
    have hrun : w.running[i]? = some w.running[i] := by simp [hrl, hil]
    obtain ⟨sh'', h1, hrel⟩ := e5 i _ hrun
    rw [hi] at h1; cases h1
    rw [e2]
    cases hv : (statusOf w.running[i]).get h with
    | none => rw [(hrel h).1 hv] at hv'; cases hv'
    | some v => exact r.activeOnly _ (List.mem_of_getElem? hrun) h v hv
  · intro h ha
    rw [e2] at ha
    rcases r.allHeld h ha with ⟨i, sh, hrun, hhas⟩ | h1
    · left
      obtain ⟨sh', hsh', hrel⟩ := e5 i sh hrun
      obtain ⟨v, hv⟩ := (AL.has_iff _ _).mp hhas
      obtain ⟨v', hv', _, _⟩ := (hrel h).2 v hv
      exact ⟨i, sh', hsh', (AL.has_iff _ _).mpr ⟨v', hv'⟩⟩
    · exact Or.inr (unplaceable_of_explore e3x h1)

theorem regimeN_run (swr : Swr) (env : Env) :
    ∀ (ops : List Op) (w : World), (∀ op ∈ ops, quietOp op = true) → RegimeN env w → RegimeN env (run swr env w ops) := by
  intro ops
  induction ops with
  | nil => intro w _ r; exact r
  | cons op ops ih =>
    intro w hall r
    apply ih (step swr env w op) (fun o ho => hall o (List.mem_cons_of_mem _ ho))
    have hop := hall op List.mem_cons_self
    cases op with
    | scrape j k x => exact regimeN_scrapes swr env w [.scrape j k x] (by intro o ho; simp at ho; subst ho; rfl) r
    | cycle sc F b =>
      simp only [quietOp, Bool.and_eq_true, List.isEmpty_iff, Bool.not_eq_true'] at hop
      obtain ⟨rfl, rfl⟩ := hop
      exact regimeN_cycle swr env w sc r
    | restart _ => cases hop
    | update _ _ => cases hop
    | setReplicas _ => cases hop
    | discover _ _ => cases hop

/-- every copy a running sidecar holds has been scraped three times -/
def AllOld (w : World) : Prop := ∀ sh ∈ w.running, ∀ h v, (statusOf sh).get h = some v → 3 ≤ v.times

/-- **one cycle makes holders unique**: in the N-holder regime with every copy scraped three times,
    after one fault-free cycle no target is held by two running sidecars, every copy is still old,
    and the world is in the (two-holder) regime -/
theorem regimeN_unique (swr : Swr) (env : Env) (w : World) (sc : Sched) (r : RegimeN env w) (hold : AllOld w) :
    Regime env (step swr env w (.cycle sc [] false)) ∧ AllOld (step swr env w (.cycle sc [] false)) := by
  have rn := regimeN_cycle swr env w sc r
  have back := regimeN_back swr env w sc r
  have hrl := running_length w r.rep
  -- the reports as the coordinator sees them
  have hnd0 : ∀ (k : Nat) (s : SI), (infos0 (inputOf env w [] false))[k]? = some s → s.scraping.keys.Nodup := by
    intro k s hk
    obtain ⟨sh, hrun, rfl⟩ := infos0_running env w k s hk
    show (statusOf sh).keys.Nodup
    rw [reported_keys_statusOf]
    exact (ws_running r.toWS sh (List.mem_of_getElem? hrun)).nodup
  have hall : ∀ (i : Nat) (s : SI), (infos0 (inputOf env w [] false))[i]? = some s → s.changeable = true := by
    intro i s hs
    obtain ⟨sh, _, rfl⟩ := infos0_running env w i s hs
    rfl
  have uniq : ∀ (i j : Nat) (shi shj : Shard) (h : Hash), (step swr env w (.cycle sc [] false)).running[i]? = some shi →
      (step swr env w (.cycle sc [] false)).running[j]? = some shj → i ≠ j →
      (statusOf shi).has h = true → (statusOf shj).has h = true → False := by
    intro i j shi shj h hi hj hij hhi hhj
    obtain ⟨vi', hvi'⟩ := (AL.has_iff _ _).mp hhi
    obtain ⟨vj', hvj'⟩ := (AL.has_iff _ _).mp hhj
    obtain ⟨shi0, hri, reli⟩ := back i shi hi
    obtain ⟨shj0, hrj, relj⟩ := back j shj hj
    obtain ⟨vi, hgi, _, ei⟩ := reli h vi' hvi'
    obtain ⟨vj, hgj, _, ej⟩ := relj h vj' hvj'
    have hact : w.active.contains h = true := by
      simpa using r.activeOnly shi0 (List.mem_of_getElem? hri) h vi hgi
    have holdE : ∀ (k : Nat) (v : St), entry (infos0 (inputOf env w [] false)) k h = some v → 3 ≤ v.times := by
      intro k v he
      obtain ⟨shk, hrk, hgk⟩ := entry_infos0 env w k h v he
      exact hold shk (List.mem_of_getElem? hrk) h v hgk
    exact gc_old_unique env.opt w.active (infos0 (inputOf env w [] false)) hnd0 hall h hact holdE i j hij ei ej
  constructor
  · refine ⟨rn.toWInv, rn.noRelief, rn.noDown, rn.minOk, ?_, ?_, rn.activeOnly, rn.allHeld⟩
    · intro i j shi shj h vi vj hi hj hij hvi hvj _
      exact uniq i j shi shj h hi hj hij ((AL.has_iff _ _).mpr ⟨vi, hvi⟩) ((AL.has_iff _ _).mpr ⟨vj, hvj⟩)
    · intro i j k shi shj shk h hi hj hk hhi hhj _
      by_cases hij : i = j
      · exact Or.inl hij
      · exact (uniq i j shi shj h hi hj hij hhi hhj).elim
  · intro sh' hm h v' hv'
    obtain ⟨i, hi⟩ := List.getElem?_of_mem hm
    obtain ⟨hil, hsi⟩ := running_inv hi
    have e1 := (regime_step_full swr env w sc r).1
    rw [e1] at hil
    have hrun : w.running[i]? = some w.running[i] := by simp [hrl, hil]
    obtain ⟨v, hv, ht⟩ := regime_step_times swr env w sc r i _ sh' hrun hsi h v' hv'
    have := hold _ (List.mem_of_getElem? hrun) h v hv
    omega

/-- **convergence without overload, any number of holders**: in the N-holder regime, after any
    history of scrapes and fault-free cycles at the end of which every copy has been scraped three
    times, two more fault-free cycles reach the converged state: same StatefulSet size, every
    reported target in normal state, none reported twice, every discovered target reported. -/
theorem regimeN_converges (swr : Swr) (env : Env) (w : World) (ops : List Op) (sc1 sc2 : Sched) (r : RegimeN env w)
    (hall : ∀ op ∈ ops, quietOp op = true) (hold : AllOld (run swr env w ops)) :
    let w1 := run swr env w ops
    let w3 := run swr env w (ops ++ [.cycle sc1 [] false, .cycle sc2 [] false])
    w3.replicas = w1.replicas ∧
    (∀ (i : Nat) (sh' : Shard) (h : Hash) (v : St), i < w1.replicas → w3.shards[i]? = some sh' →
      (statusOf sh').get h = some v → v.state = .normal) ∧
    (∀ (i j : Nat) (shi shj : Shard) (h : Hash), i < w1.replicas → j < w1.replicas → i ≠ j →
      w3.shards[i]? = some shi → w3.shards[j]? = some shj →
      (statusOf shi).has h = true → (statusOf shj).has h = true → False) ∧
    (∀ h ∈ w1.active, Held w3 h ∨ Unplaceable env w3 h) := by
  intro w1 w3
  have r1 : RegimeN env w1 := regimeN_run swr env ops w hall r
  obtain ⟨r2, hold2⟩ := regimeN_unique swr env w1 sc1 r1 hold
  have hset := regime_settled swr env _ r2 hold2
  have hrun : w3 = step swr env (step swr env w1 (.cycle sc1 [] false)) (.cycle sc2 [] false) := by
    show run swr env w (ops ++ [.cycle sc1 [] false, .cycle sc2 [] false]) = _
    unfold run; rw [List.foldl_append]; rfl
  obtain ⟨s1, s2, _⟩ := regime_step_full swr env w1 sc1 r1
  obtain ⟨c1, c2, c3, _⟩ := loop_settles2_converged swr env _ sc2 hset
  rw [s1] at c1 c2 c3
  rw [hrun]
  refine ⟨c1, c2, c3, ?_⟩
  intro h ha
  have r3 := regime_cycle swr env _ sc2 r2
  apply r3.allHeld h
  rw [(regime_step_full swr env _ sc2 r2.toN).2.1, s2]; exact ha

/-- along a history of scrapes and fault-free cycles in the regime, what a running sidecar reports at
    the end it reported at the start, and its counter has advanced by exactly the number of scrapes -/
theorem regimeN_run_times (swr : Swr) (env : Env) :
    ∀ (ops : List Op) (w : World), (∀ op ∈ ops, quietOp op = true) → RegimeN env w →
      ∀ (i : Nat) (sh' : Shard) (h : Hash) (v' : St), (run swr env w ops).running[i]? = some sh' →
        (statusOf sh').get h = some v' →
        ∃ sh v, w.running[i]? = some sh ∧ (statusOf sh).get h = some v ∧ v'.times = v.times + scrapeCount ops i h := by
  intro ops
  induction ops with
  | nil =>
    intro w _ _ i sh' h v' hrun hv
    exact ⟨sh', v', hrun, hv, by simp [scrapeCount]⟩
  | cons op ops ih =>
    intro w hall r i sh' h v' hrun hv
    have hop := hall op List.mem_cons_self
    have r1 : RegimeN env (step swr env w op) :=
      regimeN_run swr env [op] w (by intro o ho; simp at ho; subst ho; exact hop) r
    obtain ⟨sh1, v1, hrun1, hv1, ht1⟩ := ih (step swr env w op) (fun o ho => hall o (List.mem_cons_of_mem _ ho)) r1
      i sh' h v' hrun hv
    have hrl := running_length w r.rep
    cases op with
    | scrape j k x =>
      obtain ⟨a1, _, _, _, a5⟩ := run_scrapes swr env [.scrape j k x] w (by intro o ho; simp at ho; subst ho; rfl)
      have hrun1' : (run swr env w [.scrape j k x]).running[i]? = some sh1 := hrun1
      obtain ⟨hil, _⟩ := running_inv hrun1'
      rw [a1] at hil
      have hrunw : w.running[i]? = some w.running[i] := by simp [hrl, hil]
      obtain ⟨sh1', e1, rel⟩ := a5 i _ hrunw
      rw [hrun1'] at e1; cases e1
      cases hv0 : (statusOf w.running[i]).get h with
      | none => rw [(rel h).1 hv0] at hv1; cases hv1
      | some v0 =>
        obtain ⟨v1', hv1', _, t⟩ := (rel h).2 v0 hv0
        rw [hv1] at hv1'; cases hv1'
        refine ⟨_, v0, hrunw, hv0, ?_⟩
        rw [ht1, t, scrapeCount_cons, scrapeCount_cons]
        have : scrapeCount [] i h = 0 := by simp [scrapeCount]
        rw [this]; omega
    | cycle sc F b =>
      simp only [quietOp, Bool.and_eq_true, List.isEmpty_iff, Bool.not_eq_true'] at hop
      obtain ⟨rfl, rfl⟩ := hop
      obtain ⟨a1, _, _⟩ := regime_step_shape swr env w sc r
      obtain ⟨hil, hsi⟩ := running_inv hrun1
      rw [a1] at hil
      have hrunw : w.running[i]? = some w.running[i] := by simp [hrl, hil]
      obtain ⟨v0, hv0, t⟩ := regime_step_times swr env w sc r i _ sh1 hrunw hsi h v1 hv1
      refine ⟨_, v0, hrunw, hv0, ?_⟩
      rw [ht1, t, scrapeCount_cons]; simp
    | restart _ => cases hop
    | update _ _ => cases hop
    | setReplicas _ => cases hop
    | discover _ _ => cases hop

/-- **convergence without overload, any number of holders, by counting scrapes**: every copy held
    at the start is scraped three times somewhere in the history; then two more cycles. -/
theorem regimeN_converges_counting (swr : Swr) (env : Env) (w : World) (ops : List Op) (sc1 sc2 : Sched) (r : RegimeN env w)
    (hall : ∀ op ∈ ops, quietOp op = true)
    (h3 : ∀ (i : Nat) (sh : Shard) (h : Hash), w.running[i]? = some sh → (statusOf sh).has h = true → 3 ≤ scrapeCount ops i h) :
    let w1 := run swr env w ops
    let w3 := run swr env w (ops ++ [.cycle sc1 [] false, .cycle sc2 [] false])
    w3.replicas = w1.replicas ∧
    (∀ (i : Nat) (sh' : Shard) (h : Hash) (v : St), i < w1.replicas → w3.shards[i]? = some sh' →
      (statusOf sh').get h = some v → v.state = .normal) ∧
    (∀ (i j : Nat) (shi shj : Shard) (h : Hash), i < w1.replicas → j < w1.replicas → i ≠ j →
      w3.shards[i]? = some shi → w3.shards[j]? = some shj →
      (statusOf shi).has h = true → (statusOf shj).has h = true → False) ∧
    (∀ h ∈ w1.active, Held w3 h ∨ Unplaceable env w3 h) := by
  apply regimeN_converges swr env w ops sc1 sc2 r hall
  intro sh' hm h v' hv'
  obtain ⟨i, hi⟩ := List.getElem?_of_mem hm
  obtain ⟨sh, v, hrun, hv, ht⟩ := regimeN_run_times swr env ops w hall r i sh' h v' hi hv'
  have := h3 i sh h hrun ((AL.has_iff _ _).mpr ⟨v, hv⟩)
  omega

end Kvass.Loop
