/-
  Basic types shared by the generated definitions (`Kvass/Gen`), the hand-written
  model (`Kvass/Model`) and the specifications.  Core Lean only.
-/
namespace Kvass

abbrev Hash := Nat

inductive Health | unknown | good | bad
  deriving DecidableEq, Repr, Inhabited

inductive TState | normal | inTransfer
  deriving DecidableEq, Repr, Inhabited

/-- `target.ScrapeStatus`, the fields the coordinator reads. -/
structure St where
  health : Health := .unknown
  series : Int := 0
  total  : Int := 0
  state  : TState := .normal
  times  : Nat := 0
  deriving DecidableEq, Repr, Inhabited

/-- `RuntimeInfo.IdleStartAt` as the coordinator sees it: absent, set but not yet
    older than `MaxIdleTime`, or set and older. -/
inductive Idle | none | fresh | expired
  deriving DecidableEq, Repr, Inhabited

/-- `shard.RuntimeInfo` without the config hash (handled by `Probe`). -/
structure Rt where
  head : Int := 0
  proc : Int := 0
  idle : Idle := .none
  deriving DecidableEq, Repr, Inhabited

def Rt.idleSet (r : Rt) : Bool := r.idle != .none
def Rt.idleExpired (r : Rt) : Bool := r.idle == .expired

/-- `coordinator.Option`; `idleOn` is `MaxIdleTime != 0`. -/
structure Opt where
  maxHead : Int
  maxProc : Int
  maxShard : Int
  minShard : Int
  idleOn : Bool
  disableAlleviate : Bool
  deriving DecidableEq, Repr, Inhabited

/-- `coordinator.space` -/
structure Space where
  head : Int := 0
  proc : Int := 0
  deriving DecidableEq, Repr, Inhabited

def Space.add (a b : Space) : Space := ⟨a.head + b.head, a.proc + b.proc⟩

/-- A rate literal such as `1.4`, kept as tenths (`14`).  `seriesWithRate` is a
    parameter of the model (`swr`), see DESIGN §2.1. -/
abbrev Rate := Nat
abbrev Swr := Int → Rate → Int

/-- keep one occurrence of every element (the last one); used to turn an arbitrary schedule list
    into an iteration order that visits every map key once -/
def uniq : List Hash → List Hash
  | [] => []
  | h :: hs => if (uniq hs).contains h then uniq hs else h :: uniq hs

theorem uniq_nodup : ∀ l : List Hash, (uniq l).Nodup
  | [] => List.nodup_nil
  | h :: hs => by
    unfold uniq
    split
    · exact uniq_nodup hs
    · rename_i hc
      refine List.nodup_cons.mpr ⟨?_, uniq_nodup hs⟩
      simpa using hc

theorem mem_uniq {l : List Hash} {x : Hash} : x ∈ uniq l ↔ x ∈ l := by
  induction l generalizing x with
  | nil => simp [uniq]
  | cons h hs ih =>
    unfold uniq
    split
    · rename_i hc
      have : h ∈ hs := ih.mp (by simpa using hc)
      constructor
      · intro hx; exact List.mem_cons_of_mem _ (ih.mp hx)
      · intro hx
        rcases List.mem_cons.mp hx with rfl | hx
        · exact ih.mpr this
        · exact ih.mpr hx
    · simp [ih]

/-! ### association lists: the model of a Go `map[uint64]*T` -/

abbrev AL (α : Type) := List (Hash × α)

namespace AL
variable {α : Type}

def get : AL α → Hash → Option α
  | [], _ => none
  | (k, v) :: m, h => if k = h then some v else get m h

def has (m : AL α) (h : Hash) : Bool := (get m h).isSome

/-- `m[h] = v`: replace the first binding or append. -/
def set : AL α → Hash → α → AL α
  | [], h, v => [(h, v)]
  | (k, x) :: m, h, v => if k = h then (k, v) :: m else (k, x) :: set m h v

/-- `delete(m, h)` -/
def del (m : AL α) (h : Hash) : AL α := m.filter (fun p => p.1 != h)

def keys (m : AL α) : List Hash := m.map (·.1)

end AL
end Kvass
