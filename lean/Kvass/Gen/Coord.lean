-- HAND-WRITTEN PLACEHOLDER: replaced by extract/ on every run.
import Kvass.Types
namespace Kvass.Gen
open Kvass

def minWait : Nat := 0
def loadSkipHead (tar : St) : Bool := ((!decide (tar.state = TState.normal) || !decide (tar.health = Health.good)) || decide (tar.times < minWait))
def loadSkipProc (tar : St) : Bool := ((!decide (tar.state = TState.normal) || !decide (tar.health = Health.good)) || decide (tar.times < minWait))
def gcYoung (tar : St) : Bool := decide (tar.times < minWait)
def gcOtherOk (st : St) : Bool := (true && decide (st.times >= minWait))
def gcRule2 (tar st : St) : Bool := (decide (tar.state = TState.inTransfer) && decide (st.state = TState.normal))
def gcSame (tar st : St) : Bool := decide (tar.state = st.state)
def gcLess (o : Opt) (s other : Rt) : Bool := ((!decide (o.maxHead = 0) && decide (other.head < s.head)) || (decide (o.maxHead = 0) && decide (other.proc < s.proc)))
def allevDisabled (o : Opt) : Bool := o.disableAlleviate
def procTrigger (swr : Swr) (o : Opt) (s : Rt) : Bool := decide (s.proc >= swr o.maxProc 10)
def procExpect (swr : Swr) (o : Opt) : Int := swr o.maxProc 10
def headThresholds : List (Rate × Rate) := [(18, 0), (16, 2), (14, 5), (11, 10)]
def headEnabled (o : Opt) : Bool := !decide (o.maxHead = 0)
def headTrigger (swr : Swr) (o : Opt) (s : Rt) (maxRate : Rate) : Bool := decide (s.head >= swr o.maxHead maxRate)
def headExpect (swr : Swr) (o : Opt) (expRate : Rate) : Int := swr o.maxHead expRate
def ahDone (total expSeries : Int) : Bool := decide (total <= expSeries)
def ahBreak (total expSeries : Int) : Bool := decide (total <= expSeries)
def ahSkip (tar : St) : Bool := ((!decide (tar.state = TState.normal) || !decide (tar.health = Health.good)) || decide (tar.times < minWait))
def ahTooBig (o : Opt) (tar : St) : Bool := decide (tar.series > o.maxHead)
def ahDst (o : Opt) (os : Rt) (tar : St) : Bool := decide (os.head + tar.series < o.maxHead)
def ahNeed (total expSeries : Int) : Bool := decide (total > expSeries)
def apDone (total expSeries : Int) : Bool := decide (total <= expSeries)
def apBreak (total expSeries : Int) : Bool := decide (total <= expSeries)
def apSkip (tar : St) : Bool := (((decide (tar.total = 0) || !decide (tar.state = TState.normal)) || !decide (tar.health = Health.good)) || decide (tar.times < minWait))
def apTooBig (o : Opt) (tar : St) : Bool := decide (tar.total > o.maxProc)
def apDst (o : Opt) (os : Rt) (tar : St) : Bool := ((decide (o.maxHead = 0) || decide (os.head + tar.series < o.maxHead)) && decide (os.proc + tar.total < o.maxProc))
def apNeed (total expSeries : Int) : Bool := decide (total > expSeries)
def assignSkip (status : St) : Bool := (false || !decide (status.health = Health.good))
def tooBig (o : Opt) (tar : St) : Bool := ((!decide (o.maxHead = 0) && decide (tar.series > o.maxHead)) || decide (tar.series > o.maxProc))
def fit (o : Opt) (s : Rt) (sp : Space) : Bool := ((decide (o.maxHead = 0) || decide (s.head + sp.head < o.maxHead)) && decide (s.proc + sp.proc < o.maxProc))
def firstFit (o : Opt) : Bool := o.idleOn
def weightProc (o : Opt) (s : Rt) : Int := o.maxProc - s.proc
def weightUseHead (o : Opt) : Bool := !decide (o.maxHead = 0)
def weightHead (o : Opt) (s : Rt) : Int := o.maxHead - s.head
def removable (changeAble : Bool) (s : Rt) : Bool := ((changeAble && s.idleSet) && s.idleExpired)
def sdSkipIdle (s : Rt) : Bool := s.idleSet
def cbiBlocked (changeAble : Bool) : Bool := !changeAble
def cbiSpaceProc (o : Opt) (s : Rt) : Int := o.maxProc - s.proc
def cbiSpaceHead (o : Opt) (s : Rt) : Int := o.maxHead - s.head
def cbiTarBlocks (tar : St) : Bool := (!decide (tar.state = TState.normal) || decide (tar.times < minWait))
def cbiFit (o : Opt) (sp : Space) (tar : St) : Bool := ((decide (o.maxHead = 0) || decide (sp.head > tar.series)) && decide (sp.proc > tar.total))
def sbiSkip (tar : St) : Bool := (!decide (tar.state = TState.normal) || decide (tar.times < minWait))
def upProc (o : Opt) (sp : Space) : Int := (Int.tdiv sp.proc o.maxProc + 1)
def upUseHead (o : Opt) (sp : Space) (up : Int) : Bool := (!decide (o.maxHead = 0) && decide ((Int.tdiv sp.head o.maxHead + 1) > up))
def upHead (o : Opt) (sp : Space) : Int := (Int.tdiv sp.head o.maxHead + 1)
def upFloor (exp n : Int) : Bool := decide (exp < n)
def earlyMin (o : Opt) (nChangeAble : Int) : Bool := decide (nChangeAble < o.minShard)
def spaceIsZero (s : Space) : Bool := (decide (s.head = 0) && decide (s.proc = 0))
def scaleDownOn (o : Opt) : Bool := o.idleOn
def clampMax (o : Opt) (scale : Int) : Bool := decide (scale > o.maxShard)
def clampMin (o : Opt) (scale : Int) : Bool := decide (scale < o.minShard)
def needUpdateLen (nTargets nScraping : Int) : Bool := (!decide (nTargets = nScraping) || decide (nTargets = 0))
def needUpdateEntry (present : Bool) (sState tState : TState) : Bool := (!present || !decide (sState = tState))

end Kvass.Gen
