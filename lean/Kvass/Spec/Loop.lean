/-
  C03 / C06 predicates on the closed loop, stated on what the coordinator can observe of the
  running shards (their reports), so that the same predicates are evaluated on real sidecars and
  used as hypotheses / conclusions of the theorems.
-/
import Kvass.Model.Loop
import Kvass.Spec.Coord

namespace Kvass.Spec.Loop
open Kvass Kvass.Coord Kvass.Loop

/-- indices of the shards reporting `h` -/
def holders (reports : List (AL St)) (h : Hash) : List Nat :=
  reports.zipIdx.filterMap fun (st, i) => if st.has h then some i else none

/-- `healthy target that fits into a shard`: good health (as the coordinator sees it: a shard's
    report, else the explorer), not too big, and accepted by the coordinator's own placement rule
    on a shard that holds nothing (a target exactly as large as a limit is not) -/
def eligible (o : Opt) (glob : Hash → St) (h : Hash) : Bool :=
  !Gen.assignSkip (glob h) && !Gen.tooBig o (glob h) &&
  Gen.fit o {} ⟨Gen.spaceOfHead (glob h), Gen.spaceOfProc (glob h)⟩

/-- the converged state of C03, on the reports of the running shards -/
def converged (o : Opt) (active : List Hash) (explore : AL St) (reports : List (AL St)) : Bool :=
  let ss : List SI := reports.map fun st => ⟨true, {}, st⟩
  let glob := globalOf ss explore
  -- every reported target is discovered and in normal state: nothing pending, nothing left over
  (reports.all fun st => st.all fun p => active.contains p.1 && p.2.state == .normal) &&
  -- no reported target is scraped twice
  (active.all fun h => (holders reports h).length ≤ 1) &&
  -- every eligible target is scraped
  (active.all fun h => !eligible o glob h || (holders reports h).length == 1) &&
  -- nothing too big is assigned
  (reports.all fun st => st.all fun p => !Gen.tooBig o p.2)

def Fault.none (f : Fault) : Bool :=
  !f.notReady && !f.statusFail && !f.rtFail && !f.outOfSync && !f.postLost

def quietReqs := Spec.quietReqs

/-- the scale-up clause of C03 on one cycle: all shards in sync, some eligible unscraped target
    that no shard has room for, more shards allowed ⇒ the requested count exceeds the current one -/
def scaleUpClause (inp : Input) (out : Outcome) : Bool :=
  let n := inp.probes.length
  let allSync := inp.probes.all Spec.inSync
  let unplaced := inp.active.any fun h =>
    let glob := globalOf (inp.probes.map fun p => (getInfo p).1) inp.explore
    eligible inp.opt glob h &&
    !(out.final.any fun s => s.scraping.has h)
  !(allSync && unplaced && !out.crashed && (n : Int) < inp.opt.maxShard) ||
  match out.scales.getLast? with
  | some k => k > n
  | none => false

end Kvass.Spec.Loop
