/-
  C10 / C14 as relations between what a sidecar reports before and after one operation
  (`GET targets/status`, `GET runtimeinfo`).  Evaluated by the driver on the real sidecar's
  answers and proved of the model's `step`.
-/
import Kvass.Model.Sidecar

namespace Kvass.Spec.SC
open Kvass Kvass.Sidecar

/-- what `GET /targets/status` shows per target -/
structure Ent where
  health : Health
  series : Int
  total : Int
  state : TState
  times : Nat
  deriving Repr, DecidableEq, Inhabited

/-- observable state: status entries and runtime info -/
structure Obs where
  status : AL Ent
  head : Int
  proc : Int
  idle : Option Nat
  deriving Repr, DecidableEq, Inhabited

def entOf (s : SS) : Ent := ⟨s.health, s.series, s.total, s.state, s.times⟩

def obsOf (promHead : Int) (s : SC) : Obs :=
  let r := runtime promHead s
  ⟨s.status.map fun p => (p.1, entOf p.2), r.1, r.2.1, r.2.2⟩

def sameSet (a b : List Hash) : Bool := a.all b.contains && b.all a.contains

namespace C10

/-- exactly one entry per assigned hash -/
def keys (req : List Tgt) (after : Obs) : Bool :=
  sameSet after.status.keys (req.map (·.hash))

/-- state last requested; kept entries retain statistics, counter restarts exactly on
    normal → in-transfer; new entries start unknown with the coordinator's estimate -/
def entries (before : Obs) (req : List Tgt) (after : Obs) : Bool :=
  req.all fun t =>
    -- only meaningful for hashes requested once
    (req.filter fun u => u.hash == t.hash).length != 1 ||
    match after.status.get t.hash, before.status.get t.hash with
    | some a, some b =>
      a.state == t.state && a.health == b.health && a.series == b.series && a.total == b.total &&
      a.times == (if b.state == .normal && t.state == .inTransfer then 0 else b.times)
    | some a, none =>
      a.state == t.state && a.health == .unknown && a.series == t.series && a.total == t.total && a.times == 0
    | none, _ => false

/-- idle since the moment the assignment became empty; kept while it stays empty; cleared on assignment -/
def idle (now : Nat) (before : Obs) (after : Obs) : Bool :=
  if after.status.isEmpty then
    (if before.status.isEmpty && before.idle.isSome then after.idle == before.idle else after.idle == some now)
  else after.idle == none

def updateOk (now : Nat) (before : Obs) (req : List Tgt) (after : Obs) : Bool :=
  keys req after && entries before req after && idle now before after

/-- a restart keeps the assignment (hashes and states) and the idle instant -/
def restartOk (before after : Obs) : Bool :=
  sameSet after.status.keys before.status.keys &&
  (before.status.all fun (h, b) => match after.status.get h with | some a => a.state == b.state | none => false) &&
  (!before.status.isEmpty || after.idle == before.idle) && (before.status.isEmpty || after.idle == none)

/-- a scrape touches only the scraped target: counter +1 exactly once, truthful health -/
def scrapeOk (before : Obs) (h : Hash) (ok : Bool) (after : Obs) : Bool :=
  sameSet after.status.keys before.status.keys && after.idle == before.idle &&
  before.status.all fun (k, b) =>
    match after.status.get k with
    | none => false
    | some a =>
      if k == h then a.times == b.times + 1 && a.state == b.state && a.health == (if ok then .good else .bad)
      else a == b

end C10

namespace C14

def lastN (n : Nat) (l : List Int) : List Int := l.drop (l.length - n)

/-- integer mean of the last up to three successful scrapes -/
def expectSeries (hist : List Int) : Int := Int.tdiv (lastN 3 hist).sum (lastN 3 hist).length

/-- after a successful scrape with known counts, given the successful history since the entry exists -/
def scrapeVals (hist : List Int) (scraped total : Int) (a : Ent) : Bool :=
  a.series == expectSeries (hist ++ [scraped]) && a.total == total

/-- a failed scrape leaves series and total alone -/
def failKeeps (b a : Ent) : Bool := a.series == b.series && a.total == b.total

/-- one job's entry of `GET /samples/?with_metrics_detail=true`, read twice -/
structure SampleRead where
  job : Nat
  scraped1 : Int
  perScraped1 : Int     -- sum of the per-metric kept counts
  perTotal1 : Int       -- sum of the per-metric total counts
  scraped2 : Int
  perScraped2 : Int
  perTotal2 : Int
  deriving Repr, DecidableEq, Inhabited

/-- per-metric counts add up to the totals, the totals are the sums over the job's targets of what
    their last scrapes delivered (`expect`), and reading does not change anything -/
def samplesOk (expect : Nat → Int × Int) (r : SampleRead) : Bool :=
  r.scraped1 == (expect r.job).1 && r.perScraped1 == r.scraped1 && r.perTotal1 == (expect r.job).2 &&
  r.scraped2 == r.scraped1 && r.perScraped2 == r.perScraped1 && r.perTotal2 == r.perTotal1

/-- shard load = sums over its targets; head never below the sum nor below Prometheus' own count -/
def runtime (promHead : Int) (o : Obs) : Bool :=
  o.proc == (o.status.map (·.2.total)).sum &&
  o.head == (if promHead < (o.status.map (·.2.series)).sum then (o.status.map (·.2.series)).sum else promHead)

end C14

end Kvass.Spec.SC
