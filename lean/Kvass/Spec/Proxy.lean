/- C12 / C13 as predicates over a scenario and what was observed -/
import Kvass.Model.Proxy

namespace Kvass.Spec.Px
open Kvass Kvass.Proxy

def bodyOf (cs : List Chunk) : Bytes := (cs.map (·.data)).flatten

/-- does the real scrape succeed? -/
def succeeds (s : Scenario) : Bool :=
  s.jobKnown && s.hashOk && !s.stopped && !s.reqFails && s.code == 200 && s.chunks.all (!·.err)

/-- did the proxy attempt a scrape for this request at all? -/
def attempts (s : Scenario) : Bool := s.jobKnown && s.hashOk

namespace C12
/-- a successful scrape hands Prometheus exactly the target's bytes with status 200 -/
def exact (s : Scenario) (r : Resp) : Bool :=
  !succeeds s || (r.status == some 200 && r.body == bodyOf s.chunks && !r.aborted)
end C12

namespace C13
/-- a failed real scrape is a failed scrape for Prometheus: non-200 or aborted -/
def failsToo (s : Scenario) (r : Resp) : Bool :=
  succeeds s || r.status != some 200 || r.aborted

/-- truthful health and exactly one counter increment per attempt for an assigned target -/
def health (s : Scenario) (e : Effect) : Bool :=
  if attempts s && s.assigned then
    e.times == 1 && e.health == some (succeeds s)
  else e.times == 0 && e.health == none
end C13

end Kvass.Spec.Px
