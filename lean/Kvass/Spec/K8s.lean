/- C18 as decidable predicates on (input, observed result) -/
import Kvass.Model.K8s

namespace Kvass.Spec.C18
open Kvass Kvass.K8s

/-- the pod list consists of exactly the ordinals `0 … n-1`, each once, in any order -/
def wellFormed (pods : List Pod) : Bool :=
  (List.range pods.length).all fun i => (pods.filter fun p => p.ord == some i).length == 1

/-- shards are listed in ordinal order with the right address and readiness -/
def order (pods : List Pod) (rows : List ShardRow) : Bool :=
  !wellFormed pods ||
  (rows.length == pods.length &&
   (rows.zipIdx).all fun (r, i) =>
     r.id == some i &&
     pods.any fun p => p.ord == some i && r.ip == p.ip && r.ready == (p.ip != 0))

/-- scaling: exact replica count, only removed ordinals' claims deleted, nothing when unchanged -/
def scale (deletePVC : Bool) (cur : Option Int) (tpls : Nat) (expect : Int) (r : ScaleResult) : Bool :=
  match cur with
  | none => r.updated == false && r.deleted.isEmpty
  | some old =>
    if old == expect then r.updated == false && r.deleted.isEmpty && r.replicas == some old
    else
      r.replicas == some expect &&
      -- never a claim of a remaining shard, never one outside the removed range, only known templates
      (r.deleted.all fun (t, i) => deletePVC && expect ≤ i && i < old && t < tpls) &&
      -- and, when deletion is on, all of them
      (!deletePVC ||
        (List.range (old - expect).toNat).all fun k =>
          (List.range tpls).all fun t => r.deleted.contains (t, expect + k))

/-- a rejected `Update` changes nothing: replica count as before, no claim deleted, error reported -/
def scaleRejected (cur : Option Int) (r : ScaleResult) (errReturned : Bool) : Bool :=
  r.replicas == cur && r.deleted.isEmpty && errReturned

def rolling (replicas updated : Int) (skippedObs : Bool) : Bool :=
  replicas == updated || skippedObs

/-- over a history of calls of one manager: while a rolling update is in progress the StatefulSet is
    not coordinated, and a settled StatefulSet with every replica ready is -/
def rollingHistory (calls : List (Int × K8s.StsStatus)) (answers : List Bool) : Bool :=
  calls.length == answers.length &&
  (calls.zip answers).all fun (c, coordinated) =>
    (c.2.replicas == c.2.updated || !coordinated) &&
    (!(c.2.replicas == c.2.updated && c.2.ready == c.2.replicas) || coordinated)

end Kvass.Spec.C18
