/-
  Property predicates for the coordinator cycle (C01, C04, C05, C07, C08), as decidable
  functions of the *input* of a cycle (options, discovered set, explorer estimates, scripted
  shards) and of what can be *observed* from outside (requests each shard received,
  `ChangeScale` arguments, crash).  The same predicates are (a) proved of `Coord.cycle` for every
  schedule in `Kvass/Props`, and (b) evaluated by the driver on outcomes observed from the real
  coordinator.  Nothing here mentions the model's internals.
-/
import Kvass.Types
import Kvass.Model.Coord

namespace Kvass.Spec
open Kvass Kvass.Coord

/-- the observable part of an outcome -/
structure Obs where
  reqs : List (List Req)
  scales : List Int
  crashed : Bool
  deriving Repr, Inhabited

def Obs.ofOutcome (o : Outcome) : Obs := ⟨o.reqs, o.scales, o.crashed⟩

/-- a shard is reachable and in sync in this cycle (stated on the script, not on the model) -/
def inSync (p : Probe) : Bool :=
  p.ready && p.status.isSome &&
  match p.rt1 with
  | none => false
  | some (_, eq1) => eq1 || (p.pushOk && match p.rt2 with | some (_, eq2) => eq2 | none => false)

/-- the runtime report that counts for an in-sync shard -/
def effRt (p : Probe) : Rt :=
  match p.rt1 with
  | some (r1, true) => r1
  | _ => match p.rt2 with | some (r2, _) => r2 | none => {}

def reported (p : Probe) : AL St := if p.ready then p.status.getD [] else []

def postedBody (rs : List Req) : Option (List (Hash × TState × Int)) :=
  rs.findSome? fun | .postTargets b => some b | _ => none

/-- hashes the shard is told to scrape after the cycle, whatever becomes of the POST -/
def afterKeys (p : Probe) (rs : List Req) : List Hash :=
  match postedBody rs with
  | some b => if p.postOk then b.map (·.1) else (reported p).keys
  | none => (reported p).keys

def shardsOf (inp : Input) (ob : Obs) : List (Nat × Probe × List Req) :=
  (inp.probes.zip ob.reqs).zipIdx.map fun ((p, r), i) => (i, p, r)

/-- the request sequence of a cycle that leaves a shard alone: the two reads and the extra-config
    push (an empty shard is additionally sent its empty assignment every cycle) -/
def quietReqs (reported : AL St) : List Req :=
  if reported.isEmpty then [.getStatus, .getRuntime, .postTargets [], .postExtra]
  else [.getStatus, .getRuntime, .postExtra]

/-! ### C01 -/

namespace C01

/-- (a) still discovered and held by an in-sync shard ⇒ still held by an in-sync shard -/
def keep (inp : Input) (ob : Obs) : Bool :=
  let sh := shardsOf inp ob
  inp.active.all fun h =>
    !(sh.any fun (_, p, _) => inSync p && (reported p).has h) ||
    (sh.any fun (_, p, r) => inSync p && (afterKeys p r).contains h)

/-- (b) taken away only if no longer discovered or another in-sync shard reports it too -/
def takenOnlyIf (inp : Input) (ob : Obs) : Bool :=
  let sh := shardsOf inp ob
  sh.all fun (i, p, r) =>
    !inSync p ||
    (reported p).keys.all fun h =>
      (afterKeys p r).contains h || !inp.active.contains h ||
      sh.any fun (j, q, _) => j != i && inSync q && (reported q).has h

def noCrash (_ : Input) (ob : Obs) : Bool := !ob.crashed

def ok (inp : Input) (ob : Obs) : Bool := noCrash inp ob && keep inp ob && takenOnlyIf inp ob

/-- first failing clause, for reports -/
def clause (inp : Input) (ob : Obs) : String :=
  if !noCrash inp ob then "crash" else if !keep inp ob then "keep" else
  if !takenOnlyIf inp ob then "takenOnlyIf" else ""

end C01

/-! ### C04 -/

namespace C04

def minI : List Int → Option Int
  | [] => none
  | x :: xs => match minI xs with | some m => some (if x < m then x else m) | none => some x

/-- smallest (series, total) any *other* in-sync shard reports for `h`; explorer's if nobody does.
    A lower bound of what the coordinator added to the destination, hence never a false alarm. -/
def weightOf (inp : Input) (d : Nat) (h : Hash) : Option (Int × Int) :=
  let srcs := inp.probes.zipIdx.filterMap fun (p, j) =>
    if j != d && inSync p then (reported p).get h else none
  match minI (srcs.map (·.series)), minI (srcs.map (·.total)) with
  | some s, some t => some (s, t)
  | _, _ => (inp.explore.get h).map fun st => (st.series, st.total)

def newOn (p : Probe) (b : List (Hash × TState × Int)) : List Hash :=
  (b.map (·.1)).filter fun h => !(reported p).has h

/-- reported load plus everything newly placed stays strictly below the limits -/
def fits (inp : Input) (ob : Obs) : Bool :=
  (shardsOf inp ob).all fun (d, p, r) =>
    match postedBody r with
    | none => true
    | some b =>
      let nw := (newOn p b).eraseDups
      nw.isEmpty ||
      let ws := nw.filterMap (weightOf inp d)
      let hs := (ws.map (·.1)).sum
      let ps := (ws.map (·.2)).sum
      (inp.opt.maxHead == 0 || (effRt p).head + hs < inp.opt.maxHead) &&
      (effRt p).proc + ps < inp.opt.maxProc

def exceeds (o : Opt) (series total : Int) : Bool :=
  (o.maxHead != 0 && series > o.maxHead) || total > o.maxProc

def isFirstAssign (inp : Input) (h : Hash) : Bool :=
  !(inp.probes.any fun p => (reported p).has h)

/-- a target that alone exceeds a limit is never (first-)assigned -/
def noTooBig (inp : Input) (ob : Obs) : Bool :=
  (shardsOf inp ob).all fun (_, p, r) =>
    match postedBody r with
    | none => true
    | some b => (newOn p b).all fun h =>
        !isFirstAssign inp h ||
        match inp.explore.get h with
        | some st => !exceeds inp.opt st.series st.total
        | none => true

/-- every healthy discovered target that nobody scrapes exceeds a limit alone -/
def onlyTooBigUnscraped (inp : Input) : Bool :=
  inp.active.all fun h =>
    !isFirstAssign inp h ||
    match inp.explore.get h with
    | some st => st.health != .good || exceeds inp.opt st.series st.total
    | none => true

/-- … and then (relief off) no scale request exceeds what the bounds alone dictate -/
def noScaleUpForTooBig (inp : Input) (ob : Obs) : Bool :=
  !(inp.opt.disableAlleviate && onlyTooBigUnscraped inp) ||
  ob.scales.all fun k => k ≤ inp.probes.length || k ≤ inp.opt.minShard

def ok (inp : Input) (ob : Obs) : Bool := fits inp ob && noTooBig inp ob && noScaleUpForTooBig inp ob

/-- an *assigned* target that alone exceeds the process limit and that relief would look at -/
def bigProc (o : Opt) (st : St) : Bool :=
  st.state == .normal && st.health == .good && decide (3 ≤ st.times) && decide (st.total ≠ 0) && decide (st.total > o.maxProc)

/-- … or the head-series limit -/
def bigHead (o : Opt) (st : St) : Bool :=
  st.state == .normal && st.health == .good && decide (3 ≤ st.times) && decide (st.series > o.maxHead)

/-- shard `i` reports such a target, still discovered, that no other shard reports (so `gcTargets`
    leaves it alone) -/
def holdsBig (inp : Input) (i : Nat) (p : Probe) (big : St → Bool) : Bool :=
  (reported p).any fun (h, st) => big st && inp.active.contains h &&
    !(inp.probes.zipIdx.any fun (q, j) => j != i && (reported q).has h)

/-- every shard that could trigger relief does so only because of a target that alone exceeds the limit -/
def overloadOnlyByBig (inp : Input) : Bool :=
  inp.probes.zipIdx.all fun (p, i) =>
    (decide ((effRt p).proc < inp.opt.maxProc) || holdsBig inp i p (bigProc inp.opt)) &&
    (inp.opt.maxHead == 0 || decide ((effRt p).head < inp.opt.maxHead) || holdsBig inp i p (bigHead inp.opt))

/-- "… and never causes a scale-up", for assigned targets: all shards in sync, every unscraped target
    unplaceable, every shard at or above a limit holds a target that alone exceeds that limit ⇒ no
    request for more shards than there are (or than the configured minimum).  Monitored on every
    outcome; relies on series-with-rate not rounding a limit down. -/
def noScaleUpForAssignedTooBig (inp : Input) (ob : Obs) : Bool :=
  !(inp.probes.all inSync && onlyTooBigUnscraped inp && overloadOnlyByBig inp) ||
  ob.scales.all fun k => k ≤ inp.probes.length || k ≤ inp.opt.minShard

/-- no reported or estimated size is negative (hypothesis of the C04 theorem; the driver counts
    the inputs that do not meet it) -/
def sizesOK (inp : Input) : Bool :=
  (inp.probes.all fun p => (reported p).all fun kv => decide (0 ≤ kv.2.series) && decide (0 ≤ kv.2.total)) &&
  inp.explore.all fun kv => decide (0 ≤ kv.2.series) && decide (0 ≤ kv.2.total)

/-- no shard reports a negative load (hypothesis of the assigned-too-big theorem) -/
def rtsOK (inp : Input) : Bool :=
  inp.probes.all fun p => decide (0 ≤ (effRt p).head) && decide (0 ≤ (effRt p).proc)

/-- the relief orders of a schedule mention every key the shard reports: the schedule stands for the
    iteration order of the shard's whole scraping map (hypothesis of the assigned-too-big theorem) -/
def schedCovers (sc : Sched) (inp : Input) : Bool :=
  inp.probes.zipIdx.all fun (p, i) => (reported p).keys.all fun h =>
    (orderFor sc.allevProc i).contains h && (orderFor sc.allevHead i).contains h

def clause (inp : Input) (ob : Obs) : String :=
  if !fits inp ob then "fits" else if !noTooBig inp ob then "noTooBig" else
  if !noScaleUpForTooBig inp ob then "noScaleUpForTooBig" else ""

def okAll (inp : Input) (ob : Obs) : Bool := ok inp ob && noScaleUpForAssignedTooBig inp ob

def clauseAll (inp : Input) (ob : Obs) : String :=
  if !ok inp ob then clause inp ob else if !noScaleUpForAssignedTooBig inp ob then "noScaleUpForAssignedTooBig" else ""

end C04

/-! ### C05 -/

namespace C05

/-- the hand-over threshold documented in the README -/
def handover : Nat := 3

/-- an in-sync shard loses a still-discovered target only if it has scraped it ≥ 3 times and some
    other in-sync shard that keeps it has scraped it ≥ 3 times -/
def removal (inp : Input) (ob : Obs) : Bool :=
  let sh := shardsOf inp ob
  sh.all fun (i, p, r) =>
    !inSync p ||
    (reported p).all fun (h, st) =>
      (afterKeys p r).contains h || !inp.active.contains h ||
      (st.times ≥ handover &&
       sh.any fun (j, q, rq) => j != i && inSync q && (afterKeys q rq).contains h &&
         match (reported q).get h with | some sq => sq.times ≥ handover | none => false)

/-- a move marks the source in-transfer and creates the destination copy in normal state in the
    same cycle: a target newly given to a shard while another in-sync shard reports it is
    (i) in normal state on the destination and (ii) still on some in-sync reporter, which was not
    told to drop it. -/
def moveStep (inp : Input) (ob : Obs) : Bool :=
  let sh := shardsOf inp ob
  sh.all fun (d, p, r) =>
    match postedBody r with
    | none => true
    | some b => b.all fun (h, stt, _) =>
        (reported p).has h || C04.isFirstAssign inp h ||
        (stt == .normal &&
         sh.any fun (j, q, rq) => j != d && inSync q && (reported q).has h &&
           (afterKeys q rq).contains h &&
           match postedBody rq with
           | some bq => bq.any fun (h', s', _) => h' == h && s' == .inTransfer
           | none => match (reported q).get h with | some sq => sq.state == .inTransfer | none => false)

def ok (inp : Input) (ob : Obs) : Bool := removal inp ob && moveStep inp ob

/-- the series-with-rate function never rounds a limit down (hypothesis of the move-step theorem;
    the real one multiplies by a rate ≥ 1.0; the driver tags inputs for which this fails) -/
def swrOK (swr : Swr) (o : Opt) : Bool :=
  decide (o.maxProc ≤ swr o.maxProc 10) && Gen.headThresholds.all fun p => decide (o.maxHead ≤ swr o.maxHead p.1)

/-- status lists come from JSON maps: one entry per hash -/
def nodupKeys (inp : Input) : Bool := inp.probes.all fun p => (reported p).keys.eraseDups.length == (reported p).keys.length

def clause (inp : Input) (ob : Obs) : String :=
  if !removal inp ob then "removal" else if !moveStep inp ob then "moveStep" else ""

end C05

/-! ### C07 -/

namespace C07

/-- shard `i` must not be scaled away: not in sync, told to hold a target, or not idle-expired -/
def needed (_inp : Input) (p : Probe) (r : List Req) : Bool :=
  !inSync p || !(afterKeys p r).isEmpty || !(reported p).isEmpty ||
  (match postedBody r with | some b => !b.isEmpty | none => false) ||
  !((effRt p).idle == .expired)

/-- 1 + position of the last needed shard -/
def lastNeeded (inp : Input) (ob : Obs) : Nat :=
  (shardsOf inp ob).foldl (fun acc (i, p, r) => if needed inp p r then i + 1 else acc) 0

def needSpaceObs (inp : Input) (ob : Obs) : Bool :=
  -- "more space is needed in that cycle": a healthy, placeable, discovered target that no shard
  -- scrapes was left unassigned
  inp.active.any fun h =>
    C04.isFirstAssign inp h &&
    (match inp.explore.get h with
     | some st => st.health == .good && !C04.exceeds inp.opt st.series st.total
     | none => false) &&
    !((shardsOf inp ob).any fun (_, _, r) => match postedBody r with
        | some b => (b.map (·.1)).contains h | none => false)

def bounds (inp : Input) (ob : Obs) : Bool :=
  !(inp.opt.minShard ≤ inp.opt.maxShard) ||
  ob.scales.all fun k => inp.opt.minShard ≤ k && k ≤ inp.opt.maxShard

def keepsNeeded (inp : Input) (ob : Obs) : Bool :=
  !((inp.probes.length : Int) ≤ inp.opt.maxShard) ||
  ob.scales.all fun k => (lastNeeded inp ob : Int) ≤ k

def noShrink (inp : Input) (ob : Obs) : Bool :=
  !((inp.probes.length : Int) ≤ inp.opt.maxShard) ||
  !(!inp.opt.idleOn || needSpaceObs inp ob) ||
  ob.scales.all fun k => (inp.probes.length : Int) ≤ k

def ok (inp : Input) (ob : Obs) : Bool := bounds inp ob && keepsNeeded inp ob && noShrink inp ob

def clause (inp : Input) (ob : Obs) : String :=
  if !bounds inp ob then "bounds" else if !keepsNeeded inp ob then "keepsNeeded" else
  if !noShrink inp ob then "noShrink" else ""

end C07

/-! ### C08 -/

namespace C08

def isPostT : Req → Bool | .postTargets _ => true | _ => false

/-- the exact request sequence an unhealthy shard may see -/
def leftAlone (inp : Input) (ob : Obs) : Bool :=
  (shardsOf inp ob).all fun (_, p, r) =>
    if !p.ready then r.isEmpty
    else if p.status.isNone then r == [.getStatus]
    else match p.rt1 with
      | none => r == [.getStatus, .getRuntime]
      | some (_, eq1) =>
        if eq1 then true
        else if !p.pushOk then r == [.getStatus, .getRuntime, .postConfig]
        else match p.rt2 with
          | some (_, true) => r.take 4 == [.getStatus, .getRuntime, .postConfig, .getRuntime]
          | _ => r == [.getStatus, .getRuntime, .postConfig, .getRuntime]

/-- a shard whose hash already matches is never sent the raw configuration -/
def noNeedlessPush (inp : Input) (ob : Obs) : Bool :=
  (shardsOf inp ob).all fun (_, p, r) =>
    match p.rt1 with
    | some (_, true) => !r.contains .postConfig
    | _ => true

/-- no target / extra-config update unless in sync -/
def noUpdates (inp : Input) (ob : Obs) : Bool :=
  (shardsOf inp ob).all fun (_, p, r) =>
    inSync p || !(r.any fun q => isPostT q || q == .postExtra)

/-- targets reported by any reachable shard are not first-assigned elsewhere -/
def noSecondAssign (inp : Input) (ob : Obs) : Bool :=
  (shardsOf inp ob).all fun (d, p, r) =>
    match postedBody r with
    | none => true
    | some b => (C04.newOn p b).all fun h =>
        -- newly given to `d` although some shard reports it: only legitimate as a *move* from an
        -- in-sync shard
        C04.isFirstAssign inp h ||
        inp.probes.zipIdx.any fun (q, j) => j != d && inSync q && (reported q).has h

/-- hashes (with state) a shard is told to hold in normal state after the cycle -/
def normalAfter (p : Probe) (rs : List Req) : List Hash :=
  match postedBody rs with
  | some b => (b.filter fun (_, st, _) => st == .normal).map (·.1)
  | none => ((reported p).filter fun (_, st) => st.state == .normal).map (·.1)

/-- never chosen as destination: whenever an in-sync shard is told to turn a normal copy into an
    in-transfer one, the normal copy that replaces it is with another *in-sync* shard -/
def dstInSync (inp : Input) (ob : Obs) : Bool :=
  let sh := shardsOf inp ob
  sh.all fun (q, p, r) =>
    !inSync p ||
    match postedBody r with
    | none => true
    | some b => b.all fun (h, st, _) =>
        !(st == .inTransfer && (match (reported p).get h with | some v => v.state == .normal | none => false)) ||
        sh.any fun (d, pd, rd) => d != q && inSync pd && (normalAfter pd rd).contains h

def ok (inp : Input) (ob : Obs) : Bool :=
  leftAlone inp ob && noNeedlessPush inp ob && noUpdates inp ob && noSecondAssign inp ob && dstInSync inp ob

def clause (inp : Input) (ob : Obs) : String :=
  if !leftAlone inp ob then "leftAlone" else if !noNeedlessPush inp ob then "noNeedlessPush" else
  if !noUpdates inp ob then "noUpdates" else if !noSecondAssign inp ob then "noSecondAssign" else
  if !dstInSync inp ob then "dstInSync" else ""

end C08

/-! ### hypotheses of the stability theorem (`Props.C03.C03_stable_checked`), decidable form -/

def quietB (swr : Swr) (inp : Input) : Bool :=
  let ss := (inp.probes.map getInfo).map (·.1)
  let o := inp.opt
  (inp.probes.all fun p => p.ready && p.postOk && p.status.isSome &&
      (match p.rt1 with | some (_, true) => true | _ => false) && decide ((reported p).keys.Nodup)) &&
  (ss.all fun s => s.scraping.all fun q => inp.active.contains q.1 && q.2.state == .normal) &&
  (ss.zipIdx.all fun (si, i) => ss.zipIdx.all fun (sj, j) =>
      i == j || si.scraping.keys.all fun h => !(sj.scraping.has h)) &&
  (o.disableAlleviate || ss.all fun s => !Gen.procTrigger swr o s.rt && (headThreshold swr o s.rt).isNone) &&
  (inp.active.all fun h => (scrapingSetOf ss).contains h ||
      Gen.assignSkip (globalOf ss inp.explore h) || Gen.tooBig o (globalOf ss inp.explore h)) &&
  decide (o.minShard ≤ (inp.probes.length : Int)) && decide ((inp.probes.length : Int) ≤ o.maxShard) &&
  !o.idleOn


namespace C05

/-- C05 as monitored: removal rule, move step, and — for a move onto a shard that already holds the
    target (a move back while the earlier move is unfinished) — the clause C08 shares: whenever an
    in-sync shard is told to turn a normal copy into an in-transfer one, another in-sync shard holds
    the target in normal state after the cycle -/
def okAll (inp : Input) (ob : Obs) : Bool := ok inp ob && C08.dstInSync inp ob

def clauseAll (inp : Input) (ob : Obs) : String :=
  if !ok inp ob then clause inp ob else if !C08.dstInSync inp ob then "destinationNormal" else ""

end C05

end Kvass.Spec
