/-
  C20 as a reference semantics written from the property text (no generated definitions):
  a target is probed once it is first asked for; a failed probe is retried after the retry
  interval until one succeeds or *that* target is no longer listed; one token per entry.
  The driver checks that the observed event log is a run of `specStep`; `Props.C20` proves that the
  model (which calls the generated conditions) takes exactly these steps.
-/
import Kvass.Model.Explore

namespace Kvass.Spec.C20
open Kvass Kvass.Explore

def specStep (s : ES) : Op → ES
  | .get h =>
    match s.table.get h with
    | none => s
    | some id =>
      match s.objs[id]? with
      | none => s
      | some e =>
        if !e.exploring then
          { setObj s id (fun e => { e with exploring := true }) with queue := s.queue ++ [id] }
        else s
  | .update hs =>
    hs.foldl (fun (acc : ES) h =>
      if acc.table.has h then acc
      else match s.table.get h with
        | some id => { acc with table := acc.table.set h id }
        | none => { acc with objs := acc.objs ++ [{ hash := h }], table := acc.table.set h acc.objs.length })
      { s with table := [] }
  | .prune keep => { s with table := s.table.filter fun p => keep.contains p.1 }
  | .start id =>
    if s.queue.contains id then { s with queue := s.queue.erase id, inflight := s.inflight ++ [id] } else s
  | .finish id r =>
    if !s.inflight.contains id then s else
    let s := { s with inflight := s.inflight.erase id }
    match r with
    | some c => setObj s id fun e => { e with succeeded := true, est := some c }
    | none => { s with timers := s.timers ++ [id] }
  | .timer id =>
    if !s.timers.contains id then s else
    let s := { s with timers := s.timers.erase id }
    match s.objs[id]? with
    | none => s
    | some e => if s.table.get e.hash = some id then { s with queue := s.queue ++ [id] } else s

end Kvass.Spec.C20
