/- driver side of the `k8s` engine (C18) -/
import Kvass.Model.K8s
import Kvass.Spec.K8s
import Kvass.Driver.Util

namespace Kvass.Driver.K8s
open Kvass Kvass.K8s Kvass.Spec Kvass.Driver

def optNat (x : Int) : Option Nat := if x < 0 then none else some x.toNat

def pPod : P Pod := do let o ← tok; let ip ← tokNat; pure ⟨optNat o, ip⟩
def pRow : P ShardRow := do let o ← tok; let ip ← tokNat; let r ← tokBool; pure ⟨optNat o, ip, r⟩

def handle (line : String) : String :=
  match parseInts line with
  | .error e => s!"bad-op {e}"
  | .ok toks =>
    let r : Except String (String × List Int) := (do
      let id ← tok
      let kind ← tokNat
      match kind with
      | 0 => do
        let del ← tokBool; let curNil ← tokBool; let cur ← tok; let tpls ← tokNat; let expect ← tok
        let repNil ← tokBool; let rep ← tok; let upd ← tokBool
        let updOk ← tokBool; let errRet ← tokBool
        let deleted ← many (do let t ← tokNat; let i ← tok; pure (t, i))
        let curO := if curNil then none else some cur
        let ob : ScaleResult := ⟨if repNil then none else some rep, upd, deleted⟩
        let (m, merr) := changeScaleE del curO tpls expect updOk
        let rejected := !updOk && upd
        let ok := if rejected then C18.scaleRejected curO ob errRet else C18.scale del curO tpls expect ob && !errRet
        let mok := if !updOk && m.updated then C18.scaleRejected curO m merr else C18.scale del curO tpls expect m && !merr
        let tag := if curNil then "nil" else if cur == expect then "noop" else
          if !updOk then "update-rejected" else if expect < cur then (if del then "down-del" else "down") else "up"
        pure s!"case {id} match={if m == ob && merr == errRet then 1 else 0} impl={if ok then "ok" else "scale"} model={if mok then "ok" else "scale"} tags {tag}"
      | 1 => do
        let pods ← many pPod
        let rows ← many pRow
        let m := shards pods
        let ok := C18.order pods rows
        let mok := C18.order pods m
        let tag := if C18.wellFormed pods then "wellformed" else "malformed"
        pure s!"case {id} match={if m == rows then 1 else 0} impl={if ok then "ok" else "order"} model={if mok then "ok" else "order"} tags {tag}"
      | 2 => do
        let rep ← tok; let upd ← tok; let sk ← tokBool
        let m := skipped rep upd
        let ok := C18.rolling rep upd sk
        pure s!"case {id} match={if m == sk then 1 else 0} impl={if ok then "ok" else "rolling"} model={if C18.rolling rep upd m then "ok" else "rolling"} tags {if rep == upd then "settled" else "rolling"}"
      | 3 => do
        let calls ← many (do
          let now ← tok; let r ← tok; let u ← tok; let rd ← tok; let ob ← tokBool
          pure ((now, (⟨r, u, rd⟩ : StsStatus)), ob))
        let cs := calls.map (·.1)
        let obs := calls.map (·.2)
        let m := replicasRun none cs
        let ok := C18.rollingHistory cs obs
        let tag := if cs.any (fun c => c.2.replicas != c.2.updated && c.2.ready != c.2.replicas) then "rolling-notready" else
          if cs.any (fun c => c.2.replicas != c.2.updated) then "rolling" else "settled"
        pure s!"case {id} match={if m == obs then 1 else 0} impl={if ok then "ok" else "rollingHistory"} model={if C18.rollingHistory cs m then "ok" else "rollingHistory"} tags {tag}"
      | k => throw s!"bad kind {k}" : P String).run toks
    match r with
    | .error e => s!"bad-op {e}"
    | .ok (s, rest) => if rest.isEmpty then s else s!"bad-op trailing {rest.length}"

end Kvass.Driver.K8s
