/- driver side of the `cfghash` engine (C16): hashstructure model vs. the real configuration hash -/
import Kvass.Model.HStruct
import Kvass.Driver.Util

namespace Kvass.Driver.CfgHash
open Kvass Kvass.HS Kvass.HashM Kvass.Driver

def pB : P Bytes := do let bs ← many tokNat; pure (bs.map (·.toUInt8))

def pTag : P Tag := do
  match (← tokNat) with
  | 0 => pure .none | 1 => pure .ignore | 2 => pure .set | 3 => pure .str
  | k => throw s!"bad tag {k}"

partial def pV : P V := do
  match (← tokNat) with
  | 0 => do let b ← pB; pure (.num b)
  | 1 => do let b ← pB; pure (.str b)
  | 2 => do let b ← pB; pure (.time b)
  | 3 => pure .nil
  | 4 => do let xs ← many pV; pure (.slice (xs.foldr .cons .nil))
  | 5 => do let xs ← many pV; pure (.array (xs.foldr .cons .nil))
  | 6 => do
    let kvs ← many (do let k ← pV; let v ← pV; pure (k, v))
    pure (.map (kvs.foldr (fun (k, v) t => .cons k v t) .nil))
  | 7 => do
    let name ← pB
    let fs ← many (do let n ← pB; let e ← tokBool; let t ← pTag; let v ← pV; pure (n, e, t, v))
    pure (.struct name (fs.foldr (fun (n, e, t, v) acc => .cons n e t v acc) .nil))
  | k => throw s!"bad value kind {k}"

def handle (line : String) : String :=
  match parseInts line with
  | .error e => s!"bad-op {e}"
  | .ok toks =>
    match (do let id ← tok; let cfg ← pV; let text ← pB; let h ← tokNat; pure (id, cfg, text, h) : P _).run toks with
    | .error e => s!"bad-op {e}"
    | .ok ((id, cfg, text, h), rest) =>
      if !rest.isEmpty then s!"bad-op trailing {rest.length}" else
      let m := (configHash cfg text).toNat
      s!"case {id} match={if m == h then 1 else 0} model={m}"

end Kvass.Driver.CfgHash
