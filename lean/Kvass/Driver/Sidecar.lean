/- driver side of the `sidecar` engine (C10, C14): trace validation of a whole history -/
import Kvass.Model.Sidecar
import Kvass.Spec.Sidecar
import Kvass.Driver.Util
import Kvass.Driver.Coord

namespace Kvass.Driver.Sidecar
open Kvass Kvass.Sidecar Kvass.Spec.SC Kvass.Driver

def pEnt : P (Hash × Ent) := do
  let h ← tokNat; let he ← Coord.pHealth; let se ← tok; let to ← tok; let st ← Coord.pState; let ti ← tokNat
  pure (h, ⟨he, se, to, st, ti⟩)

def pObs : P Obs := do
  let st ← many pEnt
  let head ← tok; let proc ← tok
  let idle ← tok
  pure ⟨st, head, proc, if idle < 0 then none else some idle.toNat⟩

def pTgt : P Tgt := do
  let h ← tokNat; let se ← tok; let to ← tok; let st ← Coord.pState; let j ← tokNat
  pure ⟨h, se, to, st, j⟩

def pRead : P C14.SampleRead := do
  let j ← tokNat; let a ← tok; let b ← tok; let c ← tok; let d ← tok; let e ← tok; let f ← tok
  pure ⟨j, a, b, c, d, e, f⟩

/-- an operation, or a read of `/samples/` (which must not change anything) -/
def pOp : P (Option Op × List C14.SampleRead) := do
  match (← tokNat) with
  | 0 => do let req ← many pTgt; pure (some (.update req), [])
  | 1 => do
    let h ← tokNat; let ok ← tokBool; let a ← tok; let b ← tok
    pure (some (.scrape h (if ok then some (a, b) else none)), [])
  | 2 => pure (some .restart, [])
  | 3 => do let rs ← many pRead; pure (none, rs)
  | k => throw s!"bad op {k}"

def sortObs (o : Obs) : Obs := { o with status := Coord.sortBy (fun a b => a.1 < b.1) o.status }

structure Acc where
  s : SC × Nat
  prev : Obs
  hist : AL (List Int)
  mism : Option Nat := none
  c10 : Option (Nat × String) := none
  c14 : Option (Nat × String) := none
  tags : List String := []

def addTag (a : Acc) (t : String) : Acc := if a.tags.contains t then a else { a with tags := a.tags ++ [t] }

def readAcc (ph : Int) (a : Acc) (i : Nat) (rs : List C14.SampleRead) (ob : Obs) : Acc :=
  let ob := sortObs ob
  let a := if a.mism.isNone && sortObs (obsOf ph a.s.1) != ob then { a with mism := some i } else a
  let a := if a.c14.isNone && !(rs.all (C14.samplesOk (samples a.s.1))) then { a with c14 := some (i, "samples") } else a
  let a := if a.c10.isNone && ob != a.prev then { a with c10 := some (i, "readChanges") } else a
  addTag a "samples"

def stepAcc (ph : Int) (a : Acc) (x : Nat × Op × Obs) : Acc :=
  let (i, op, ob) := x
  let now := a.s.2
  let s' := step a.s op
  let m := sortObs (obsOf ph s'.1)
  let ob := sortObs ob
  let a := if a.mism.isNone && m != ob then { a with mism := some i } else a
  let fail10 (a : Acc) (c : String) : Acc := if a.c10.isNone then { a with c10 := some (i, c) } else a
  let fail14 (a : Acc) (c : String) : Acc := if a.c14.isNone then { a with c14 := some (i, c) } else a
  let a := if C14.runtime ph ob then a else fail14 a "runtime"
  let a := match op with
    | .update req =>
      let a := if !C10.keys req ob then fail10 a "keys" else
               if !C10.entries a.prev req ob then fail10 a "entries" else
               if !C10.idle now a.prev ob then fail10 a "idle" else a
      let a := addTag a (if req.isEmpty then "emptyUpdate" else "update")
      let a := if req.any (fun t => t.state == TState.inTransfer && (match a.prev.status.get t.hash with
          | some b => b.state == TState.normal | none => false)) then addTag a "flipToTransfer" else a
      let a := if req.any (fun t => (a.prev.status.get t.hash).isSome) then addTag a "kept" else a
      -- history of successful scrapes lives as long as the entry
      { a with hist := ob.status.keys.map fun h => (h, if (a.prev.status.get h).isSome then (a.hist.get h).getD [] else []) }
    | .restart =>
      let a := if C10.restartOk a.prev ob then a else fail10 a "restart"
      let a := addTag a "restart"
      { a with hist := ob.status.keys.map fun h => (h, []) }
    | .scrape h r =>
      let a := if C10.scrapeOk a.prev h r.isSome ob then a else fail10 a "scrape"
      match a.prev.status.get h, ob.status.get h with
      | some b, some e =>
        match r with
        | some (sc, to) =>
          let hs := (a.hist.get h).getD []
          let a := if C14.scrapeVals hs sc to e then a else fail14 a "window"
          let a := addTag a (if hs.length ≥ 3 then "windowFull" else "scrapeOk")
          { a with hist := a.hist.set h (hs ++ [sc]) }
        | none =>
          let a := if C14.failKeeps b e then a else fail14 a "failKeeps"
          addTag a "scrapeFail"
      | _, _ => addTag a "scrapeUnassigned"
  { a with s := s', prev := ob }

def handle (line : String) : String :=
  match parseInts line with
  | .error e => s!"bad-op {e}"
  | .ok toks =>
    match (do
      let id ← tok; let ph ← tok
      let ob0 ← pObs
      let ops ← many (do let op ← pOp; let ob ← pObs; pure (op, ob))
      pure (id, ph, ob0, ops) : P _).run toks with
    | .error e => s!"bad-op {e}"
    | .ok ((id, ph, ob0, ops), rest) =>
      if !rest.isEmpty then s!"bad-op trailing {rest.length}" else
      let a0 : Acc := { s := init, prev := sortObs ob0, hist := [] }
      let a0 := if sortObs (obsOf ph init.1) != sortObs ob0 then { a0 with mism := some 0 } else a0
      let a := (ops.zipIdx).foldl (fun a (((op, rs), ob), i) =>
        match op with
        | some op => stepAcc ph a (i + 1, op, ob)
        | none => readAcc ph a (i + 1) rs ob) a0
      let f (x : Option (Nat × String)) := match x with | some (i, c) => s!"{c}@{i}" | none => "ok"
      s!"case {id} match={match a.mism with | none => "1" | some i => s!"0@{i}"} impl C10={f a.c10} C14={f a.c14} tags {",".intercalate a.tags}"

end Kvass.Driver.Sidecar
