/-
  Driver side of the `coord` engine: parse a case (input + outcome observed from the real
  coordinator), search a schedule under which the model produces exactly the observed outcome,
  *re-execute* `Coord.cycle` with that witness, and evaluate the property predicates on the
  observed outcome and on every model outcome reached by the search.
  Nothing in this file is used by a theorem.
-/
import Kvass.Model.Coord
import Kvass.Spec.Coord
import Kvass.Driver.Util

namespace Kvass.Driver.Coord
open Kvass Kvass.Coord Kvass.Spec Kvass.Driver

/-- Go's `int64(float64(series) * rate)`; `rate` in tenths -/
def swrFloat : Swr := fun x r =>
  let f := Float.ofInt x * (Float.ofNat r / 10.0)
  f.toInt64.toInt

def pHealth : P Health := do
  match (← tokNat) with
  | 0 => pure .unknown | 1 => pure .good | 2 => pure .bad
  | n => throw s!"bad health {n}"

def pState : P TState := do
  match (← tokNat) with
  | 0 => pure .normal | 1 => pure .inTransfer
  | n => throw s!"bad state {n}"

def pIdle : P Idle := do
  match (← tokNat) with
  | 0 => pure .none | 1 => pure .fresh | 2 => pure .expired
  | n => throw s!"bad idle {n}"

def pSt : P (Hash × St) := do
  let h ← tokNat; let he ← pHealth; let se ← tok; let to ← tok; let st ← pState; let ti ← tokNat
  pure (h, { health := he, series := se, total := to, state := st, times := ti })

def pRt : P (Option (Rt × Bool)) := do
  let ok ← tokBool; let head ← tok; let proc ← tok; let idle ← pIdle; let eq ← tokBool
  pure (if ok then some (⟨head, proc, idle⟩, eq) else none)

def pProbe : P Probe := do
  let ready ← tokBool
  let sok ← tokBool
  let st ← many pSt
  let rt1 ← pRt
  let pushOk ← tokBool
  let rt2 ← pRt
  let postOk ← tokBool
  pure { ready, status := if sok then some st else none, rt1, pushOk, rt2, postOk }

def pOpt : P Opt := do
  let maxHead ← tok; let maxProc ← tok; let maxShard ← tok; let minShard ← tok
  let idleOn ← tokBool; let dis ← tokBool
  pure { maxHead, maxProc, maxShard, minShard, idleOn, disableAlleviate := dis }

def pInput : P Input := do
  let opt ← pOpt
  let active ← many tokNat
  let explore ← many pSt
  let scaleErr1 ← tokBool
  let probes ← many pProbe
  pure { opt, active, explore, probes, scaleErr1 }

def pReq : P Req := do
  match (← tokNat) with
  | 0 => pure .getStatus | 1 => pure .getRuntime | 2 => pure .postConfig
  | 3 => do
    let b ← many (do let h ← tokNat; let s ← pState; let se ← tok; pure (h, s, se))
    pure (.postTargets b)
  | 4 => pure .postExtra
  | n => throw s!"bad req {n}"

def pObs : P Obs := do
  let crashed ← tokBool
  let scales ← many tok
  let reqs ← many (many pReq)
  pure { reqs, scales, crashed }

/-! canonical form: POST bodies sorted by hash -/

def insertBy {α} (lt : α → α → Bool) (x : α) : List α → List α
  | [] => [x]
  | y :: ys => if lt x y then x :: y :: ys else y :: insertBy lt x ys
def sortBy {α} (lt : α → α → Bool) (l : List α) : List α := l.foldr (insertBy lt) []

def canonReq : Req → Req
  | .postTargets b => .postTargets (sortBy (fun a b => a.1 < b.1) b)
  | r => r

def canonObs (o : Obs) : Obs := { o with reqs := o.reqs.map (·.map canonReq) }

/-! ### schedule search (untrusted; its witness is re-checked with `cycle`) -/

structure Node where
  c : CS
  need : Space
  sc : Sched
  picks : List Nat := []     -- picks consumed so far (recorded in order)

def sameState (a b : Node) : Bool :=
  a.need == b.need && a.c.crashed == b.c.crashed &&
  a.c.shards.length == b.c.shards.length &&
  (a.c.shards.zip b.c.shards).all fun (x, y) =>
    x.changeable == y.changeable && x.rt == y.rt && x.scraping == y.scraping

def dedupe (ns : List Node) : List Node :=
  ns.foldl (fun acc n => if acc.any (sameState n) then acc else acc ++ [n]) []

def setAt {α} (l : List (List α)) (i : Nat) (v : List α) : List (List α) :=
  let l' := l ++ List.replicate (i + 1 - l.length) []
  l'.set i v

def stageProc (swr : Swr) (o : Opt) (viable : CS → Bool) (nodes : List Node) (i : Nat) : List Node :=
  dedupe <| List.filter (fun n => viable n.c) <| nodes.flatMap fun n =>
    match n.c.shards[i]? with
    | none => [n]
    | some s =>
      if s.changeable && Gen.procTrigger swr o s.rt then
        let elig := s.scraping.keys.filter fun h => match s.scraping.get h with
          | some t => !Gen.apSkip t | none => false
        (perms elig).map fun ord =>
          let (c', k) := allevProcShard o (Gen.procExpect swr o) ord n.c i
          { n with c := c', need := ⟨n.need.head, n.need.proc + k⟩,
                   sc := { n.sc with allevProc := setAt n.sc.allevProc i ord } }
      else [n]

def stageHead (swr : Swr) (o : Opt) (viable : CS → Bool) (nodes : List Node) (i : Nat) : List Node :=
  dedupe <| List.filter (fun n => viable n.c) <| nodes.flatMap fun n =>
    match n.c.shards[i]? with
    | none => [n]
    | some s =>
      if s.changeable then
        match headThreshold swr o s.rt with
        | some ex =>
          let elig := s.scraping.keys.filter fun h => match s.scraping.get h with
            | some t => !Gen.ahSkip t | none => false
          (perms elig).map fun ord =>
            let (c', k) := allevHeadShard o (Gen.headExpect swr o ex) ord n.c i
            { n with c := c', need := ⟨n.need.head + k, n.need.proc⟩,
                     sc := { n.sc with allevHead := setAt n.sc.allevHead i ord } }
        | none => [n]
      else [n]

/-- assign stage: nodes carry the remaining eligible hashes -/
structure ANode where
  n : Node
  rest : List Hash
  need2 : Space

def sameA (a b : ANode) : Bool := sameState a.n b.n && a.rest == b.rest && a.need2 == b.need2

def stageAssign (o : Opt) (viable : CS → Bool) (scr : List Hash) (glob : Hash → St) (fuel : Nat) (nodes : List ANode) : List ANode :=
  match fuel with
  | 0 => nodes
  | fuel + 1 =>
    if nodes.all (·.rest.isEmpty) then nodes else
    let next := nodes.flatMap fun a =>
      if a.rest.isEmpty || a.n.c.crashed then [a] else
      a.rest.flatMap fun h =>
        let rest' := a.rest.filter (· != h)
        let st := glob h
        let sp : Space := ⟨st.series, st.total⟩
        let cands := candidates o a.n.c.shards a.n.c.shards.length sp
        let choices : List Nat := if Gen.firstFit o || cands.isEmpty then [0] else List.range cands.length
        choices.map fun p =>
          let (c', _, nd) := assignLoop o scr glob [h] a.n.c [p] a.need2
          let used := !(Gen.firstFit o) && !cands.isEmpty
          { n := { a.n with c := c', sc := { a.n.sc with assign := a.n.sc.assign ++ [h] },
                            picks := if used then a.n.picks ++ [p] else a.n.picks },
            rest := rest', need2 := nd }
    let ded := (next.filter fun a => viable a.n.c).foldl (fun acc n => if acc.any (sameA n) then acc else acc ++ [n]) []
    stageAssign o viable scr glob fuel ded

/-- scale-down: ND version of `sdLoop` -/
def stageDown (o : Opt) (viable : CS → Bool) (fuel : Nat) (k : Nat) (nodes : List Node) : List Node :=
  match fuel, k with
  | 0, _ => nodes
  | _, 0 => nodes
  | fuel + 1, k + 1 =>
    -- nodes that are still running the loop are tagged by `picks = []`; finished ones by `[1]`
    let (running, done) := nodes.partition (·.picks.isEmpty)
    let next := running.flatMap fun n =>
      match n.c.shards[k + 1]? with
      | none => [n]
      | some src =>
        if Gen.sdSkipIdle src.rt then [n] else
        let keys := src.scraping.keys
        let o1s := perms keys
        -- one witness order per result of shardCanBeIdle
        let tOrd := o1s.find? fun ord => shardCanBeIdle o n.c.shards (k + 1) ord
        let fOrd := o1s.find? fun ord => !shardCanBeIdle o n.c.shards (k + 1) ord
        let stopNodes : List Node := match fOrd with
          | some ord => [{ n with sc := { n.sc with canIdle := setAt n.sc.canIdle (k + 1) ord }, picks := [1] }]
          | none => []
        let goNodes : List Node := match tOrd with
          | none => []
          | some ord1 =>
            let elig := keys.filter fun h => match src.scraping.get h with
              | some t => !Gen.sbiSkip t | none => false
            (perms elig).map fun ord2 =>
              let (c', _, ok) := sbiLoop o (k + 1) ord2 n.c []
              { n with c := c',
                       sc := { n.sc with canIdle := setAt n.sc.canIdle (k + 1) ord1,
                                         becomeIdle := setAt n.sc.becomeIdle (k + 1) ord2 },
                       picks := if ok then [] else [1] }
        stopNodes ++ goNodes
    let ded := ((next ++ done).filter fun n => viable n.c).foldl (fun acc n =>
      if acc.any (fun m => sameState n m && n.picks == m.picks) then acc else acc ++ [n]) []
    stageDown o viable fuel k ded

/-- all candidate schedules, by stages -/
def candidatesScheds (swr : Swr) (inp : Input) (viable : CS → Bool := fun _ => true) : List Sched :=
  let o := inp.opt
  let infos := inp.probes.map getInfo
  let ss0 := infos.map (·.1)
  let early := Gen.earlyMin o ss0.length (nChangeable ss0)
  if early && inp.scaleErr1 then [{}] else
  let glob := globalOf ss0 inp.explore
  let ss1 := gc o inp.active ss0
  let idx := List.range ss1.length
  let n0 : Node := { c := { shards := ss1 }, need := {}, sc := {} }
  let afterAllev : List Node :=
    if Gen.allevDisabled o then [n0] else
    let a := idx.foldl (stageProc swr o viable) [n0]
    if Gen.headEnabled o then idx.foldl (stageHead swr o viable) a else a
  let afterAssign : List Node := afterAllev.flatMap fun n =>
    let scr := scrapingSetOf n.c.shards
    let elig := inp.active.eraseDups.filter fun h =>
      !scr.contains h && !Gen.assignSkip (glob h) && !Gen.tooBig o (glob h)
    let res := stageAssign o viable scr glob (elig.length + 1) [{ n := { n with picks := [] }, rest := elig, need2 := {} }]
    res.map fun a => { a.n with need := spaceAdd n.need a.need2, sc := { a.n.sc with picks := a.n.picks } }
  let final : List Node := afterAssign.flatMap fun n =>
    if n.c.crashed || divCrash o n.need then [n] else
    if Gen.needUp (Gen.spaceIsZero n.need) then [n] else
    if Gen.scaleDownOn o then
      let stop := removableSuffix n.c.shards n.c.shards.length
      stageDown o viable (stop + 1) (stop - 1) [{ n with picks := [] }]
    else [n]
  final.map (·.sc)

instance : BEq Obs := ⟨fun a b => a.reqs == b.reqs && a.scales == b.scales && a.crashed == b.crashed⟩

structure Verdict where
  matchedFull : Bool
  matched : List (String × Bool)      -- per property, under that property's projection
  nScheds : Nat
  modelBad : List (String × String)   -- (property, clause) violated by some model outcome
  tags : List String

def eraseBodies (o : Obs) : Obs :=
  { o with reqs := o.reqs.map (·.map fun | .postTargets _ => .postTargets [] | r => r) }
def onlyBodies (o : Obs) : Obs :=
  { o with scales := [], reqs := o.reqs.map (·.filter C08.isPostT) }
def onlyScales (o : Obs) : Obs := { o with reqs := [] }

/-- what each property's correspondence check compares -/
def projections : List (String × (Obs → Obs)) :=
  [("C01", onlyBodies), ("C04", onlyBodies), ("C05", onlyBodies), ("C07", onlyScales),
   ("C08", fun o => { eraseBodies o with scales := [] })]

def props : List (String × (Input → Obs → Bool) × (Input → Obs → String)) :=
  [("C01", C01.ok, C01.clause), ("C04", C04.okAll, C04.clauseAll), ("C05", C05.okAll, C05.clauseAll),
   ("C07", C07.ok, C07.clause), ("C08", C08.ok, C08.clause)]

def tagsOf (out : Outcome) (inp : Input) : List String :=
  let kinds := out.log.map (·.kind)
  (if kinds.contains 0 then ["assign"] else []) ++
  (if kinds.contains 1 then ["reliefProc"] else []) ++
  (if kinds.contains 2 then ["reliefHead"] else []) ++
  (if kinds.contains 3 then ["scaleDownMove"] else []) ++
  (if out.crashed then ["crash"] else []) ++
  (if out.scales.length > 1 then ["earlyMin"] else []) ++
  (match out.scales.getLast? with
   | some k => if k > inp.probes.length then ["scaleUp"] else if k < inp.probes.length then ["scaleDown"] else []
   | none => []) ++
  (if (out.afterGc.zip (inp.probes.map (fun p => (getInfo p).1))).any (fun (a, b) => a.scraping.length < b.scraping.length)
   then ["gcDelete"] else []) ++
  (if out.reqs.any (·.any C08.isPostT) then ["post"] else []) ++
  (if C04.sizesOK inp then [] else ["negativeSize"]) ++
  (if C05.swrOK swrFloat inp.opt then [] else ["swrRoundsDown"]) ++
  (if C05.nodupKeys inp then [] else ["duplicateKeys"]) ++
  (if C04.rtsOK inp then [] else ["negativeLoad"]) ++
  (if inp.probes.all inSync && C04.onlyTooBigUnscraped inp && C04.overloadOnlyByBig inp &&
      inp.probes.zipIdx.any (fun (p, i) => C04.holdsBig inp i p (C04.bigProc inp.opt) || C04.holdsBig inp i p (C04.bigHead inp.opt))
   then ["assignedTooBig"] else [])

def judge (inp : Input) (ob : Obs) : Verdict :=
  let scheds := candidatesScheds swrFloat inp
  let outs := scheds.map fun sc => (sc, cycle swrFloat sc inp)
  let obc := canonObs ob
  let mouts := outs.map fun (_, out) => canonObs (Obs.ofOutcome out)
  let hit := outs.find? fun (_, out) => canonObs (Obs.ofOutcome out) == obc
  let matched := projections.map fun (name, pr) => (name, mouts.any fun m => pr m == pr obc)
  let modelBad := props.filterMap fun (name, ok, clause) =>
    match outs.find? (fun (_, out) => !ok inp (Obs.ofOutcome out)) with
    | some (_, out) => some (name, clause inp (Obs.ofOutcome out))
    | none => none
  let tags := match hit with
    | some (_, out) => tagsOf out inp
    | none => match outs.head? with | some (_, out) => tagsOf out inp | none => []
  { matchedFull := hit.isSome, matched, nScheds := scheds.length, modelBad, tags }

def handle (line : String) : String :=
  match parseInts line with
  | .error e => s!"bad-op {e}"
  | .ok toks =>
    match (do let id ← tok; let inp ← pInput; let ob ← pObs; pure (id, inp, ob) : P _).run toks with
    | .error e => s!"bad-op {e}"
    | .ok ((id, inp, ob), rest) =>
      if !rest.isEmpty then s!"bad-op trailing tokens {rest.length}" else
      let v := judge inp ob
      let impl := props.map fun (name, ok, clause) =>
        s!"{name}={if ok inp ob then "ok" else clause inp ob}"
      let model := props.map fun (name, _, _) =>
        match v.modelBad.find? (·.1 == name) with
        | some (_, c) => s!"{name}={c}"
        | none => s!"{name}=ok"
      let ms := v.matched.map fun (n, b) => s!"{n}={if b then 1 else 0}"
      s!"case {id} match={if v.matchedFull then 1 else 0} nsched={v.nScheds} matched {" ".intercalate ms} impl {" ".intercalate impl} model {" ".intercalate model} tags {",".intercalate v.tags}"

end Kvass.Driver.Coord
