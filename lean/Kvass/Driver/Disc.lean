/- driver side of the `disc` engine (C17) -/
import Kvass.Model.Disc
import Kvass.Driver.Util
import Kvass.Driver.Coord

namespace Kvass.Driver.Disc
open Kvass Kvass.Disc Kvass.Driver

def pDT : P DT := do
  match (← tokNat) with
  | 0 => do let k ← tokNat; pure (.active k)
  | 1 => do let i ← tokNat; pure (.dropped i)
  | 2 => pure .rejected
  | k => throw s!"bad DT {k}"

def pOp : P Op := do
  match (← tokNat) with
  | 0 => do
    let m ← many (do let j ← tokNat; let gs ← many (many pDT); pure (j, gs))
    pure (.update m)
  | 1 => do let js ← many tokNat; pure (.reload js)
  | k => throw s!"bad op {k}"

structure Obs where
  active : List (Nat × List Nat)
  dropped : List (Nat × List Nat)
  explorer : List Nat
  deriving Repr, DecidableEq, Inhabited

def pObs : P Obs := do
  let a ← many (do let j ← tokNat; let ks ← many tokNat; pure (j, ks))
  let d ← many (do let j ← tokNat; let ks ← many tokNat; pure (j, ks))
  let e ← many tokNat
  pure ⟨a, d, e⟩

def sortNat (l : List Nat) : List Nat := Coord.sortBy (· < ·) l
def sortJ (l : List (Nat × List Nat)) : List (Nat × List Nat) := Coord.sortBy (fun a b => a.1 < b.1) l

def obsOf (s : DS) : Obs :=
  ⟨sortJ s.active, sortJ (s.dropped.map fun (j, d) => (j, sortNat d)), sortNat (s.explorer.map (·.1))⟩

def canon (o : Obs) : Obs :=
  ⟨sortJ o.active, sortJ (o.dropped.map fun (j, d) => (j, sortNat d)), sortNat o.explorer⟩

/-- the property, stated on what is observed: for every configured job, active / dropped are the
    translation of that job's latest update since it was (re-)added; explorer = latest update's targets -/
structure Ref where
  jobs : List Nat := []
  latest : List (Nat × List (List DT)) := []
  lastUpd : List Nat := []      -- keys the explorer must know

def refStep (r : Ref) : Op → Ref
  | .update m =>
    let m' := m.filter fun (j, _) => r.jobs.contains j
    { r with latest := (r.latest.filter fun (j, _) => !(m'.any (·.1 == j))) ++ m',
             lastUpd := (m'.flatMap fun (_, gs) => (fromJob gs).1) }
  | .reload js =>
    { jobs := js, latest := r.latest.filter fun (j, _) => js.contains j,
      lastUpd := r.lastUpd }   -- pruned below through the jobs of the entries

def specOk (r : Ref) (o : Obs) : String :=
  let act := sortJ (r.latest.map fun (j, gs) => (j, (fromJob gs).1))
  let drp := sortJ (r.latest.map fun (j, gs) => (j, sortNat (Props_droppedIds gs)))
  if sortJ o.active != act then "active" else
  if (sortJ (o.dropped.map fun (j, d) => (j, sortNat d))).filter (fun (_, d) => !d.isEmpty) != drp.filter (fun (_, d) => !d.isEmpty) then "dropped" else ""
where
  Props_droppedIds (gs : List (List DT)) : List Nat :=
    gs.flatMap fun g => g.filterMap fun | .dropped i => some i | _ => none

def handle (line : String) : String :=
  match parseInts line with
  | .error e => s!"bad-op {e}"
  | .ok toks =>
    match (do
      let id ← tok
      let ops ← many (do let op ← pOp; let ob ← pObs; pure (op, ob))
      pure (id, ops) : P _).run toks with
    | .error e => s!"bad-op {e}"
    | .ok ((id, ops), rest) =>
      if !rest.isEmpty then s!"bad-op trailing {rest.length}" else
      let (_, _, mism, viol, tags) := ops.zipIdx.foldl (fun (acc : DS × Ref × Option Nat × Option (Nat × String) × List String) ((op, ob), i) =>
        let (s, r, mism, viol, tags) := acc
        let s' := step s op
        let r' := refStep r op
        let ob := canon ob
        let mism := if mism.isNone && obsOf s' != ob then some (i + 1) else mism
        let c := specOk r' ob
        let viol := if viol.isNone && c != "" then some (i + 1, c) else viol
        let tag := match op with
          | .update m => if m.any (fun (_, gs) => gs.any (·.any (· == .rejected))) then "rejectedTarget"
                         else if m.any (fun (_, gs) => gs.any fun g => (g.filter fun | .dropped _ => true | _ => false).length > 1) then "manyDropped"
                         else "update"
          | .reload js => if s.active.keys.any (fun j => !js.contains j) then "reloadRemoves" else "reloadKeeps"
        (s', r', mism, viol, if tags.contains tag then tags else tags ++ [tag])) (({} : DS), ({} : Ref), none, none, [])
      s!"case {id} match={match mism with | none => "1" | some i => s!"0@{i}"} impl C17={match viol with | none => "ok" | some (i, c) => s!"{c}@{i}"} tags {",".intercalate tags}"

end Kvass.Driver.Disc
