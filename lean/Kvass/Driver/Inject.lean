/- driver side of the `inject` engine (C11): job rewrite on abstract job records -/
import Kvass.Model.Inject
import Kvass.Driver.Util

namespace Kvass.Driver.Inject
open Kvass Kvass.Inject Kvass.Driver

def optN (x : Int) : Option Nat := if x < 0 then none else some x.toNat

def pJob : P Job := do
  let name ← tokNat; let ingest ← tokNat; let scheme ← tokNat
  let ba ← tok; let be ← tok; let tls ← tok; let oa ← tok
  let sd ← many tokNat
  let st ← many (do let h ← tokNat; let s ← tokNat; let j ← tokNat; pure (h, s, j))
  let rl ← many tokNat
  let px ← tok
  pure { name, ingest, scheme, basicAuth := optN ba, bearer := optN be, tls := optN tls, otherAuth := optN oa,
         sd, static := st, relabel := rl, proxy := optN px }

def handle (line : String) : String :=
  match parseInts line with
  | .error e => s!"bad-op {e}"
  | .ok toks =>
    match (do
      let id ← tok
      let px ← tok; let sm ← tokBool
      let assign ← many (do let j ← tokNat; let ts ← many (do let h ← tokNat; let s ← tokNat; pure (h, s)); pure (j, ts))
      let jobs ← many pJob
      let obs ← many pJob
      pure (id, (⟨optN px, sm⟩ : Inject.Opt), assign, jobs, obs) : P _).run toks with
    | .error e => s!"bad-op {e}"
    | .ok ((id, o, assign, jobs, obs), rest) =>
      if !rest.isEmpty then s!"bad-op trailing {rest.length}" else
      let m := inject o assign jobs
      -- static entries are compared as sets (group order follows the assignment's order, which is a Go map order upstream)
      let norm (j : Job) : Job := { j with static := (j.static.foldl (fun acc x => if acc.contains x then acc else
        (acc.filter (fun y => decide (y.1 < x.1))) ++ [x] ++ (acc.filter (fun y => decide (y.1 ≥ x.1)))) []) }
      let same := m.length == obs.length && (m.zip obs).all fun (a, b) => norm a == norm b
      let firstDiff := ((m.zip obs).zipIdx.find? fun ((a, b), _) => norm a != norm b).map (·.2)
      s!"case {id} match={if same then 1 else 0} diffAt={match firstDiff with | some i => toString i | none => "-"}"

end Kvass.Driver.Inject
