/-
  driver side of the `explore` engine (C20): the observed event log must be a run of
  `Explore.step` in which retry timers may fire at any moment (set-of-states simulation).
-/
import Kvass.Model.Explore
import Kvass.Spec.Explore
import Kvass.Driver.Util

namespace Kvass.Driver.Explore
open Kvass Kvass.Explore Kvass.Driver

inductive Ev
  | get (h : Hash)
  | update (hs : List Hash)
  | prune (keep : List Hash)
  | start (probe : Nat) (h : Hash)
  | finish (probe : Nat) (r : Option (Int × Int))
  deriving Repr, Inhabited

def pEv : P Ev := do
  match (← tokNat) with
  | 0 => do let h ← tokNat; pure (.get h)
  | 1 => do let hs ← many tokNat; pure (.update hs)
  | 2 => do let hs ← many tokNat; pure (.prune hs)
  | 3 => do let p ← tokNat; let h ← tokNat; pure (.start p h)
  | 4 => do
    let p ← tokNat; let ok ← tokBool; let a ← tok; let b ← tok
    pure (.finish p (if ok then some (a, b) else none))
  | k => throw s!"bad event {k}"

/-- a simulation state: model state + which entry each observed probe belongs to -/
structure Sim where
  s : ES
  probes : List (Nat × Nat)     -- probe number ↦ entry id
  deriving DecidableEq

/-- close a set of states under "a pending retry timer fires" -/
def closeTimers (step : ES → Op → ES) (fuel : Nat) (sims : List Sim) : List Sim :=
  match fuel with
  | 0 => sims
  | fuel + 1 =>
    let next := sims.flatMap fun m => m.s.timers.map fun id => { m with s := step m.s (.timer id) }
    let fresh := next.foldl (fun acc m => if acc.contains m || sims.contains m then acc else acc ++ [m]) []
    if fresh.isEmpty then sims else closeTimers step fuel (sims ++ fresh)

def applyEv (step : ES → Op → ES) (m : Sim) : Ev → List Sim
  | .get h => [{ m with s := step m.s (.get h) }]
  | .update hs => [{ m with s := step m.s (.update hs) }]
  | .prune ks => [{ m with s := step m.s (.prune ks) }]
  | .start p h =>
    -- any queued entry with that hash may be the one the worker took
    (m.s.queue.filter fun id => match m.s.objs[id]? with | some e => e.hash == h | none => false).eraseDups.map fun id =>
      { s := step m.s (.start id), probes := m.probes ++ [(p, id)] }
  | .finish p r =>
    match m.probes.find? (·.1 == p) with
    | some (_, id) => if m.s.inflight.contains id then [{ m with s := step m.s (.finish id r) }] else []
    | none => []

def handle (line : String) : String :=
  match parseInts line with
  | .error e => s!"bad-op {e}"
  | .ok toks =>
    match (do let id ← tok; let evs ← many pEv; pure (id, evs) : P _).run toks with
    | .error e => s!"bad-op {e}"
    | .ok ((id, evs), rest) =>
      if !rest.isEmpty then s!"bad-op trailing {rest.length}" else
      let simulate (step : ES → Op → ES) : Option Nat × Bool × Nat :=
        let init : List Sim := [⟨{}, []⟩]
        let (sims, bad) := evs.zipIdx.foldl (fun (acc : List Sim × Option Nat) (ev, i) =>
          match acc.2 with
          | some _ => acc
          | none =>
            let cl := closeTimers step 8 acc.1
            let nxt := (cl.flatMap fun m => applyEv step m ev).eraseDups
            if nxt.isEmpty then (acc.1, some (i + 1)) else (nxt.take 64, none)) (init, none)
        let final := closeTimers step 8 sims
        -- at quiescence (the harness lets every remaining probe succeed) no token is left in some consistent state
        (bad, final.any fun m => m.s.queue.isEmpty && m.s.inflight.isEmpty, final.length)
      let (mb, mq, mn) := simulate Explore.step
      let (sb, sq, _) := simulate Spec.C20.specStep
      let show' (b : Option Nat) (q : Bool) : String := match b with
        | some i => s!"0@{i}" | none => if q then "1" else "0@end"
      s!"case {id} match={show' mb mq} impl C20={match sb with | some i => s!"trace@{i}" | none => if sq then "ok" else "trace@end"} states={mn}"

end Kvass.Driver.Explore
