/-
  Driver side of the `loop` engine (C03, C06): replay a closed-loop history observed from the real
  coordinator + real sidecars on `Loop.step`.  For every cycle a schedule is searched under which
  `Coord.cycle` (on the probes derived from the *model's* sidecars) yields the observed requests and
  scales; after every operation the model's sidecars must report what the real ones report.
  Per cycle the C03 predicates are evaluated on the state before it.
-/
import Kvass.Model.Loop
import Kvass.Spec.Loop
import Kvass.Spec.Sidecar
import Kvass.Driver.Coord
import Kvass.Driver.Sidecar

namespace Kvass.Driver.Loop
open Kvass Kvass.Coord Kvass.Loop Kvass.Spec Kvass.Driver

def pFault : P Fault := do
  let a ← tokBool; let b ← tokBool; let c ← tokBool; let d ← tokBool; let e ← tokBool; let g ← tokBool
  pure ⟨a, b, c, d, e, g⟩

def pWorldObs : P (Nat × List SC.Obs) := do
  let n ← tokNat
  let obs ← many Sidecar.pObs
  pure (n, obs)

inductive ROp
  | cycle (faults : List Fault) (scaleFail : Bool) (ob : Obs)
  | plain (op : Loop.Op)

def pOp : P ROp := do
  match (← tokNat) with
  | 0 => do
    let fs ← many pFault; let sf ← tokBool; let ob ← Coord.pObs
    pure (.cycle fs sf ob)
  | 1 => do
    let i ← tokNat; let h ← tokNat; let ok ← tokBool; let a ← tok; let b ← tok
    pure (.plain (.scrape i h (if ok then some (a, b) else none)))
  | 2 => do let i ← tokNat; pure (.plain (.restart i))
  | 3 => do let n ← tokNat; pure (.plain (.setReplicas n))
  | 4 => do
    let active ← many tokNat; let explore ← many Coord.pSt
    pure (.plain (.discover active explore))
  | 5 => do let i ← tokNat; let req ← many Sidecar.pTgt; pure (.plain (.update i req))
  | k => throw s!"bad loop op {k}"

def worldObs (env : Env) (w : World) : Nat × List SC.Obs :=
  (w.replicas, w.running.map fun sh => Sidecar.sortObs (SC.obsOf env.promHead sh.sc))

structure Acc where
  w : World
  prev : Nat × List SC.Obs          -- what the real sidecars reported after the previous operation
  mism : Option (Nat × String) := none
  flags : List String := []

/-- a real sidecar's report as the coordinator reads it -/
def reportOfObs (o : SC.Obs) : AL St :=
  o.status.map fun p => (p.1, ({ health := p.2.health, series := p.2.series, total := p.2.total, state := p.2.state, times := p.2.times } : St))

/-- the probe a real sidecar's report amounts to (idle times are not classified: only used where
    scale-down is switched off) -/
def probeOfObs (o : SC.Obs) (f : Fault) : Probe :=
  { ready := !f.notReady
    status := if f.statusFail then none else some (reportOfObs o)
    rt1 := if f.rtFail then none else some (⟨o.head, o.proc, .none⟩, !f.outOfSync)
    pushOk := f.pushOk
    rt2 := if f.pushOk && !f.rtFail then some (⟨o.head, o.proc, .none⟩, true) else none
    postOk := !f.postLost }

/-- search pruning: within a cycle (after GC) no stage removes a key from a shard's plan, so a
    partial plan can lead to the observed request bodies only if its keys are among theirs
    (states are not monotone: a move onto a shard that still holds the target in transfer
    overwrites that entry with a normal one) -/
def viableFor (inp : Input) (ob : Obs) (c : CS) : Bool :=
  ob.crashed ||
  (c.shards.zipIdx).all fun (s, i) =>
    let body : List (Hash × TState) :=
      match (ob.reqs[i]?).bind Spec.postedBody with
      | some b => b.map fun x => (x.1, x.2.1)
      | none => match inp.probes[i]? with
        | some p => ((Spec.reported p).filter fun q => inp.active.contains q.1).map fun q => (q.1, q.2.state)
        | none => []
    (planned inp.active s).all fun q =>
      (body.find? (·.1 == q.1)).isSome

def reportsOf (w : World) : List (AL St) := w.running.map statusOf

def stepAcc (prune : Bool) (env : Env) (a : Acc) (x : Nat × ROp × (Nat × List SC.Obs)) : Acc :=
  let (i, rop, (n, obs)) := x
  let fail (a : Acc) (why : String) : Acc := if a.mism.isNone then { a with mism := some (i, why) } else a
  let a := match rop with
    | .plain op => { a with w := Loop.step Coord.swrFloat env a.w op }
    | .cycle faults sf ob =>
      let inp := inputOf env a.w faults sf
      let scheds := Coord.candidatesScheds Coord.swrFloat inp (if prune then viableFor inp ob else fun _ => true)
      let obc := Coord.canonObs ob
      let hit := scheds.find? fun sc => Coord.canonObs (Obs.ofOutcome (cycle Coord.swrFloat sc inp)) == obc
      let sc := match hit with | some sc => sc | none => scheds.headD {}
      let a := if hit.isNone then fail a s!"cycle:no-schedule-of-{scheds.length}" else a
      let (w', out) := cycleStep Coord.swrFloat env a.w sc faults sf
      -- the C03 predicates are evaluated on what the *real* sidecars reported, so that they stay
      -- meaningful when model and implementation disagree
      let reports := a.prev.2.map reportOfObs
      let after := obs.map reportOfObs
      let conv := Loop.converged env.opt a.w.active a.w.explore reports
      let inpObs : Input := { opt := env.opt, active := a.w.active, explore := a.w.explore, scaleErr1 := sf,
                              probes := a.prev.2.zipIdx.map fun (o, i) => probeOfObs o (faultAt faults i) }
      let globObs := globalOf (reports.map fun st => (⟨true, {}, st⟩ : SI)) a.w.explore
      let unplaced := a.w.active.any fun h => Loop.eligible env.opt globObs h && !(after.any fun st => st.has h) &&
        !(ob.reqs.any fun rs => match Spec.postedBody rs with | some b => (b.map fun (x : Hash × TState × Int) => x.1).contains h | none => false)
      let up := !(faults.all Loop.Fault.none && !sf && unplaced && !ob.crashed && (reports.length : Int) < env.opt.maxShard) ||
        (match ob.scales.getLast? with | some k => k > reports.length | none => false)
      let _ := out
      -- did the real cycle leave every shard alone and keep the scale?
      let quiet := ob.scales == [(a.w.replicas : Int)] && !ob.crashed &&
        ob.reqs.length == reports.length && (ob.reqs.zip reports).all fun (rs, st) => rs == Loop.quietReqs st
      -- the hypotheses of the stability theorem (`C03_stable_checked`) on the real reports
      let qb := faults.all Loop.Fault.none && !sf && quietB Coord.swrFloat inpObs
      let flag := s!"{if conv then 1 else 0}{if quiet then 1 else 0}{if up then 1 else 0}{if faults.all Loop.Fault.none && !sf then 0 else 1}{if qb then 1 else 0}"
      { a with w := w', flags := a.flags ++ [flag] }
  let a := { a with prev := (n, obs) }
  let (mn, mobs) := worldObs env a.w
  if mn != n then fail a s!"replicas:model={mn},real={n}"
  else if mobs != obs.map Sidecar.sortObs then
    let k := ((mobs.zip (obs.map Sidecar.sortObs)).zipIdx.find? fun ((x, y), _) => x != y).map (·.2)
    let detail := match k with
      | some k => s!"model={repr (mobs[k]?)}/real={repr ((obs.map Sidecar.sortObs)[k]?)}".replace " " "" |>.replace "\n" ""
      | none => ""
    fail a s!"shard:{match k with | some k => toString k | none => "count"}:{detail}"
  else a

def handleWith (prune : Bool) (line : String) : String :=
  match parseInts line with
  | .error e => s!"bad-op {e}"
  | .ok toks =>
    match (do
      let id ← tok
      let opt ← Coord.pOpt
      let maxIdle ← tokNat; let ph ← tok
      let replicas ← tokNat
      let active ← many tokNat; let explore ← many Coord.pSt
      let ob0 ← pWorldObs
      let ops ← many (do let op ← pOp; let ob ← pWorldObs; pure (op, ob))
      pure (id, (⟨opt, maxIdle, ph⟩ : Env), replicas, active, explore, ob0, ops) : P _).run toks with
    | .error e => s!"bad-op {e}"
    | .ok ((id, env, replicas, active, explore, ob0, ops), rest) =>
      if !rest.isEmpty then s!"bad-op trailing {rest.length}" else
      let w0 : World := { shards := List.replicate replicas freshShard, replicas, active, explore }
      let a0 : Acc := { w := w0, prev := ob0 }
      let a0 := if worldObs env w0 != (ob0.1, ob0.2.map Sidecar.sortObs) then { a0 with mism := some (0, "init") } else a0
      let a := (ops.zipIdx).foldl (fun a ((op, ob), i) => stepAcc prune env a (i + 1, op, ob)) a0
      let finalConv := Loop.converged env.opt a.w.active a.w.explore (reportsOf a.w)
      s!"case {id} match={match a.mism with | none => "1" | some (i, why) => s!"0@{i}:{why}"} final={if finalConv then 1 else 0} cycles {",".intercalate a.flags}"

def handle := handleWith true
def handleNoPrune := handleWith false

end Kvass.Driver.Loop
