/- driver side of the `labels` engine, hash part (C15): bit-for-bit comparison of targetHash -/
import Kvass.Model.Hash
import Kvass.Driver.Util

namespace Kvass.Driver.Hash
open Kvass Kvass.HashM Kvass.Driver

def pBytes : P Bytes := do
  let bs ← many tokNat
  pure (bs.map fun b => b.toUInt8)

def handle (line : String) : String :=
  match parseInts line with
  | .error e => s!"bad-op {e}"
  | .ok toks =>
    match (do
      let id ← tok
      let ls ← many (do let n ← pBytes; let v ← pBytes; pure (n, v))
      let url ← pBytes
      let h ← tokNat
      pure (id, ls, url, h) : P _).run toks with
    | .error e => s!"bad-op {e}"
    | .ok ((id, ls, url, h), rest) =>
      if !rest.isEmpty then s!"bad-op trailing {rest.length}" else
      let m := (targetHash ls url).toNat
      -- the hash must not depend on the order the labels are given in
      let m2 := (targetHash ls.reverse url).toNat
      s!"case {id} match={if m == h then 1 else 0} perm={if m == m2 then 1 else 0} model={m}"

end Kvass.Driver.Hash
