/-
  Driver side of the `chain` engine (C02): for one target, the final labels at the coordinator and
  the job go in; the model's shard labels and real request are compared with what the real chain
  (injector → config loader → Prometheus label population → Target.URL → proxy) produced; the clause
  of `WF` the target violates (if any) classifies a difference from plain Prometheus.
-/
import Kvass.Model.Chain
import Kvass.Driver.Util

namespace Kvass.Driver.Chain
open Kvass Kvass.Chain Kvass.Driver

def pnameOf (c : Nat) : PName :=
  match c with
  | 0 => .hash | 1 => .jobName | 2 => .scheme
  | k + 3 => .user k

def pName : P Name := do
  let tag ← tokNat; let id ← tokNat
  match tag with
  | 0 => pure .address | 1 => pure .scheme | 2 => pure .path | 3 => pure .job | 4 => pure .inst
  | 5 => pure (.param (pnameOf id))
  | 6 => pure (.internal id) | 7 => pure (.pub id) | 8 => pure (.bad id) | 9 => pure (.marked id)
  | 10 => pure (.digit id) | 11 => pure (.dmarked id)
  | t => throw s!"bad name tag {t}"

def pLabels : P (List (Name × Val)) := many (do let n ← pName; let v ← tokNat; pure (n, v))
def pQuery : P (List (PName × List Val)) := many (do let k ← tokNat; let vs ← many tokNat; pure (pnameOf k, vs))

def labelsOf (l : List (Name × Val)) : Labels := fun m => ((l.find? (·.1 == m)).map (·.2)).getD 0
def paramsOf (l : List (PName × List Val)) : Params := fun k => ((l.find? (·.1 == k)).map (·.2)).getD []

structure ObsReq where
  scheme : Val
  host : Val
  path : Val
  query : List (PName × List Val)

def pReq : P ObsReq := do
  let s ← tokNat; let h ← tokNat; let p ← tokNat; let q ← pQuery
  pure ⟨s, h, p, q⟩

def routing : List PName := [.hash, .jobName, .scheme]

/-- the clause of `Props.C02.WF` that fails on the finite support, if any -/
def wfClause (j : Job) (ps : List (PName × List Val)) (l : List (Name × Val)) : String :=
  let L := labelsOf l
  if l.any (fun (n, v) => v != 0 && (match n with | .bad _ => true | .marked _ => true | .dmarked _ => true | _ => false)) then "noBad"
  else if ps.any (fun (k, vs) => !vs.isEmpty && !j.keys.contains k) then "keys"
  else if routing.any (fun k => L (.param k) != 0 || !(j.params k).isEmpty || j.keys.contains k) then "noRouting"
  else if j.keys.any (fun k => L (.param k) != (j.params k).headD 0) then "cfgParam"
  else if L .job == 0 || L .path == 0 || L .scheme == 0 || L .inst == 0 then "jobSet"
  else if j.name == 0 then "ids"
  else "ok"

def sameReq (names : List PName) (m : Request) (o : ObsReq) : Bool :=
  m.scheme == o.scheme && m.host == o.host && m.path == o.path &&
  names.all fun k => m.query k == (paramsOf o.query) k

def handle (line : String) : String :=
  match parseInts line with
  | .error e => s!"bad-op {e}"
  | .ok toks =>
    match (do
      let id ← tok
      let name ← tokNat; let path ← tokNat; let scheme ← tokNat
      let keys ← many tokNat
      let ps ← pQuery
      let hash ← tokNat
      let l ← pLabels
      let loaded ← tokBool
      let shard ← pLabels       -- labels of the shard's target (all of them)
      let real ← pReq            -- the request the proxy sent
      let toldJob ← tokNat; let toldHash ← tokNat   -- what the proxy was told
      pure (id, name, path, scheme, keys.map pnameOf, ps, hash, l, loaded, shard, real, toldJob, toldHash) : P _).run toks with
    | .error e => s!"bad-op {e}"
    | .ok ((id, name, path, scheme, keys, ps, hash, l, loaded, shard, real, toldJob, toldHash), rest) =>
      if !rest.isEmpty then s!"bad-op trailing {rest.length}" else
      let j : Job := { name, path, scheme, params := paramsOf ps, keys }
      let L := labelsOf l
      let clause := wfClause j ps l
      let G := staticGroup j hash (ship j L)
      let groupNames := (l.map (·.1)) ++ (l.filterMap fun (n, _) => match n with | .bad k => some (.marked k) | .digit k => some (.dmarked k) | _ => none)
      let mLoads := !(groupNames.any fun n => G n != 0 && invalidName n)
      if !mLoads || !loaded then
        s!"case {id} match={if mLoads == loaded then 1 else 0} wf={clause} loads={if mLoads then 1 else 0}"
      else
      let S := shardLabels j hash L
      let names := (l.map (·.1)) ++ (shard.map (·.1))
      -- compare the shard's target on everything but unnamed internal labels
      let cmp := names.filter fun n => match n with | .internal _ => false | _ => true
      let labelsOk := cmp.all fun n => S n == (labelsOf shard) n
      let pnames := routing ++ (ps.map (·.1)) ++ (real.query.map (·.1)) ++
        (names.filterMap fun n => match n with | .param k => some k | _ => none)
      let mreq := realRequest j hash L
      let reqOk := sameReq pnames mreq real
      let told := (targetURL (genJob j) S).query
      let toldOk := told .jobName == [toldJob] && told .hash == [toldHash]
      s!"case {id} match={if labelsOk && reqOk && toldOk then 1 else 0} wf={clause} loads=1 labels={if labelsOk then 1 else 0} req={if reqOk then 1 else 0} told={if toldOk then 1 else 0}"

end Kvass.Driver.Chain
