/- driver side of the `store` engine (C09) -/
import Kvass.Model.Store
import Kvass.Driver.Util

namespace Kvass.Driver.Store
open Kvass Kvass.Store Kvass.Driver

/-- line: id lenNew hadOld leftover | observed: mainKind(0 none,1 old,2 new,3 prefix k,4 other) mainK tmpKind tmpK loaded(0 empty,1 old,2 new,3 err,4 other) -/
def handle (line : String) : String :=
  match parseInts line with
  | .error e => s!"bad-op {e}"
  | .ok toks =>
    let r : Except String (String × List Int) := (do
      let id ← tok
      let lenNew ← tokNat
      let hadOld ← tokBool
      let leftover ← tokBool     -- a longer temp file of an earlier interrupted save is lying around
      let mainKind ← tokNat; let mainK ← tokNat
      let tmpKind ← tokNat; let tmpK ← tokNat
      let loaded ← tokNat
      -- the model treats every proper, non-empty prefix alike: long files are scaled down to 16
      -- bytes (0 ↦ 0, full length ↦ 16, anything in between ↦ 1..15) so that the enumeration of
      -- crash states stays small
      let big := lenNew > 16
      let lenM := if big then 16 else lenNew
      let sc (k : Nat) : Nat := if !big then k else if k == 0 then 0 else if k ≥ lenNew then 16 else 1 + (k - 1) % 15
      let mainK := sc mainK
      let tmpK := sc tmpK
      let data : Bytes := (List.range lenM).map (· + 1)
      let old : Bytes := [0]
      let junk : Bytes := [4000000, 4000001]
      let blob (kind k : Nat) : Option (Option Bytes) :=
        match kind with
        | 0 => some none | 1 => some (some old) | 2 => some (some data) | 3 => some (some (data.take k))
        | 5 => some (some junk) | _ => none
      let dec : Bytes → Option Nat := fun b => if b == old then some 1 else if b == data then some 2 else none
      let fs0 : FS := ⟨if hadOld then some old else none, if leftover then some junk else none, none⟩
      -- property on the observation alone: the next start resumes the previous or the new assignment
      let okObs0 := if hadOld then loaded == 1 || loaded == 2 else loaded == 0 || loaded == 2
      match saveProtocol with
      | none => pure s!"case {id} match=0 impl={if okObs0 then "ok" else "resume"} model=protocol tags unknown-protocol"
      | some ops =>
        let states := crashStates data ops fs0
        let inModel := match blob mainKind mainK, blob tmpKind tmpK with
          | some m, some t => states.any fun s => s.main == m && s.tmp == t
          | _, _ => false
        -- property on the observation: the next start resumes the previous or the new assignment
        let okObs := if hadOld then loaded == 1 || loaded == 2 else loaded == 0 || loaded == 2
        -- property on the model: every crash state loads as old or new
        let okModel := states.all fun s => match load dec s with
          | .cur 1 => hadOld | .cur 2 => true | .empty => !hadOld | _ => false
        -- and the model predicts what was loaded from the observed state
        let pred := match blob mainKind mainK, blob tmpKind tmpK with
          | some m, some t => (match load dec ⟨m, t, none⟩ with
              | .empty => 0 | .cur 1 => 1 | .cur 2 => 2 | .err => 3 | _ => 4)
          | _, _ => 4
        let tag := if mainKind == 2 then "new" else if tmpKind == 3 then "cut-in-temp" else if mainKind == 3 then "cut-in-store" else "old"
        pure s!"case {id} match={if inModel && pred == loaded then 1 else 0} impl={if okObs then "ok" else "resume"} model={if okModel then "ok" else "resume"} tags {tag}" : P String).run toks
    match r with
    | .error e => s!"bad-op {e}"
    | .ok (s, rest) => if rest.isEmpty then s else s!"bad-op trailing {rest.length}"

end Kvass.Driver.Store
