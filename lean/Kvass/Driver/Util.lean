/- token reader for the line protocol (all tokens are decimal integers) -/
namespace Kvass.Driver

abbrev P := StateT (List Int) (Except String)

def tok : P Int := do
  match (← get) with
  | [] => throw "unexpected end of line"
  | x :: xs => set xs; pure x

def tokNat : P Nat := do
  let x ← tok
  if x < 0 then throw s!"negative where natural expected: {x}" else pure x.toNat

def tokBool : P Bool := do
  let x ← tok
  if x == 0 then pure false else if x == 1 then pure true else throw s!"bad bool {x}"

def many {α} (p : P α) : P (List α) := do
  let n ← tokNat
  let rec go : Nat → List α → P (List α)
    | 0, acc => pure acc.reverse
    | k + 1, acc => do let x ← p; go k (x :: acc)
  go n []

def parseInts (s : String) : Except String (List Int) :=
  (s.splitOn " ").filter (· ≠ "") |>.mapM fun t =>
    match t.toInt? with
    | some i => .ok i
    | none => .error s!"bad token {t}"

def perms {α} : List α → List (List α)
  | [] => [[]]
  | x :: xs => (perms xs).flatMap fun p => (List.range (p.length + 1)).map fun i => p.take i ++ x :: p.drop i

end Kvass.Driver
