/- driver side of the `proxy` engine (C12, C13) -/
import Kvass.Model.Proxy
import Kvass.Spec.Proxy
import Kvass.Driver.Util

namespace Kvass.Driver.Proxy
open Kvass Kvass.Proxy Kvass.Spec.Px Kvass.Driver

/-- bytes are abstracted to their offsets in the true body -/
def mkChunks : Nat → List (Nat × Bool) → List Chunk
  | _, [] => []
  | off, (n, e) :: rest => ⟨(List.range n).map (· + off), e⟩ :: mkChunks (off + n) rest

def handle (line : String) : String :=
  match parseInts line with
  | .error e => s!"bad-op {e}"
  | .ok toks =>
    let r : Except String (String × List Int) := (do
      let id ← tok
      let stopped ← tokBool; let jobKnown ← tokBool; let hashOk ← tokBool; let assigned ← tokBool
      let reqFails ← tokBool; let code ← tokNat
      let cs ← many (do let n ← tokNat; let e ← tokBool; pure (n, e))
      -- observed
      let clientErr ← tokBool; let status ← tokNat; let bodyLen ← tokNat; let isPrefix ← tokBool
      let times ← tokNat; let health ← tokNat; let recorded ← tokBool
      let s : Scenario := ⟨stopped, jobKnown, hashOk, assigned, reqFails, code, mkChunks 0 cs⟩
      let obsBody : Bytes := if isPrefix then List.range bodyLen else [4294967295]
      let obsResp : Resp := ⟨if clientErr then none else some status, obsBody, clientErr⟩
      let obsEff : Effect := ⟨times, match health with | 1 => some true | 2 => some false | _ => none, recorded⟩
      let (mr, me) := serve s
      -- an aborted response may or may not show its status line / partial body to the client
      let respMatch := if mr.aborted then clientErr && isPrefix && bodyLen ≤ mr.body.length
                       else !clientErr && some status == mr.status && obsBody == mr.body
      let effMatch := me == obsEff
      let c12 := C12.exact s obsResp
      let c13a := C13.failsToo s { obsResp with status := if clientErr then none else some status }
      let c13b := C13.health s obsEff
      let m12 := C12.exact s mr
      let m13 := C13.failsToo s mr && C13.health s me
      let tag := if succeeds s then "success" else if !attempts s then "rejected" else if stopped then "stopped"
        else if reqFails || code != 200 then "requestFails" else if mr.aborted then "midBody" else "failsBeforeFirstByte"
      pure s!"case {id} match={if respMatch && effMatch then 1 else 0} impl C12={if c12 then "ok" else "exact"} C13={if !c13a then "failsToo" else if !c13b then "health" else "ok"} model C12={if m12 then "ok" else "exact"} C13={if m13 then "ok" else "fail"} tags {tag}" : P String).run toks
    match r with
    | .error e => s!"bad-op {e}"
    | .ok (s, rest) => if rest.isEmpty then s else s!"bad-op trailing {rest.length}"

end Kvass.Driver.Proxy
