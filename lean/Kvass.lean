import Kvass.Types
import Kvass.Gen.Coord
import Kvass.Model.Coord
import Kvass.Spec.Coord
