#!/usr/bin/env python3
"""writes MANIFEST.json from bin/props.py (so the manifest always lists exactly the checks that exist)"""
import json, os, sys, subprocess
VERIF = os.path.dirname(os.path.dirname(os.path.abspath(__file__)))
sys.path.insert(0, os.path.join(VERIF, 'bin'))
from props import PROPS, NOT_APPLICABLE, LEVEL_TEXT, ENGINES  # noqa

hook_commits = []
try:
    out = subprocess.run(['git', '-C', '/repo', 'log', '--format=%H %s'], stdout=subprocess.PIPE, text=True).stdout
    hook_commits = [l.split()[0] for l in out.splitlines() if 'verif hook' in l]
except Exception:
    pass

checks = []
for pid in sorted(PROPS):
    s = PROPS[pid]
    checks.append({
        'property_id': pid,
        'quick_cmd': 'bin/check %s --tier quick' % pid,
        'thorough_cmd': 'bin/check %s --tier thorough' % pid,
        'evidence_file': 'evidence/%s.json' % pid,
        'replay_cmd_template': 'bin/check %s --replay {path}' % pid,
        'engine': s['engine'],
        'level_claimed': {'category': 'proof', 'text': LEVEL_TEXT.get(pid, s.get('level_text', '')), 'design_ref': 'DESIGN.md §4 ' + pid + ' (plan) and §10 (as built)'},
        'level_note': s.get('level_note', '') or ('Trusted: Lean kernel; extractor leaf table; hand-written statement structure of the model, tied to the code by the correspondence check of engine `%s`; ' % s['engine'] + '; '.join(s.get('assumptions', []))),
        'technique': s.get('technique', 'Lean 4 theorems over a model regenerated (decision expressions) from the Go source + differential correspondence check'),
    })
m = {
    'version': 1,
    'setup_cmd': 'bin/setup',
    'hooks': {
        'guard': 'verif',
        'enable': 'go build -tags verif -overlay /verif/hooks/overlay.json (the overlay injects the //go:build verif hook files; the same files are committed in /repo)',
        'baseline_off_cmd': 'cd /repo && go test -mod=mod -vet=off -count=1 ./...',
        'source_commits': hook_commits,
        'add_only': True,
    },
    'engines': [
        {'name': 'coord', 'path': 'harness/cmd/kvh/coord.go', 'serves_properties': [p for p in sorted(PROPS) if PROPS[p]['engine'] == 'coord' or 'coord' in PROPS[p].get('extra_engines', [])],
         'kind_free_text': 'the real Coordinator against scripted shards: one cycle, a second cycle on the same Coordinator object with the same script, a third one in which the explorer has forgotten its estimates; every outcome matched against Coord.cycle of its input through a schedule search in the Lean driver'},
    ] + [dict(e, serves_properties=[p for p in sorted(PROPS) if PROPS[p]['engine'] == e['name'] or e['name'] in PROPS[p].get('extra_engines', [])]) for e in ENGINES if any(PROPS[p]['engine'] == e['name'] for p in PROPS)],
    'checks': checks,
    'not_applicable': [{'property_id': k, 'reason': v} for k, v in sorted(NOT_APPLICABLE.items()) if k not in PROPS],
    'notes': 'All checks share bin/check; see DESIGN.md. Lean model and theorems under lean/, extractor under extract/, harness under harness/.',
}
json.dump(m, open(os.path.join(VERIF, 'MANIFEST.json'), 'w'), indent=1)
print('MANIFEST.json: %d checks, %d not applicable' % (len(checks), len(m['not_applicable'])))
