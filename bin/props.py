"""property table for bin/check"""

TRUSTED_BASE = [
    "Lean 4.33 kernel (thorough tier: leanchecker re-check); axioms per theorem restricted to propext, Classical.choice, Quot.sound (audited on every run)",
    "extract/ (go/ast -> Lean): expression translation and the leaf table mapping Go selectors to model fields",
    "harness/ (Go): generators, canonicalisation, scripted shard/HTTP/k8s stubs, abstraction of Go values into model inputs",
    "Lean compiler for the driver executable (theorems are about the definitions; the driver runs them)",
    "statement structure of the Go code around the extracted expressions is modelled by hand and tied by the correspondence check only",
    "no int64 overflow, float rounding exact below 2^50, Go runtime scheduling not modelled (model operations are atomic)",
]

COORD_ASSUME = [
    "shard reports are sidecar-producible: series >= 0, no null status entries, idle-since set iff status empty, process series = sum of totals",
    "seriesWithRate is an arbitrary function in the theorems; the driver uses IEEE double multiply + truncation like Go",
]

PROPS = {
    'C01': dict(engine='coord', module='Kvass.Props.C01', assumptions=COORD_ASSUME,
                partial='none: Spec.C01.ok (the monitored predicate) is proved of Coord.cycle for every schedule; crash-freedom under max-process-series != 0 and non-negative series'),
    'C05': dict(engine='coord', module='Kvass.Props.C05', assumptions=COORD_ASSUME + ['status lists have one entry per hash (JSON maps)'],
                partial='proved: minWait = 3 and Spec.C05.removal for every schedule; Spec.C05.moveStep (source marked in-transfer, destination normal, in the same cycle) is monitored on implementation and model outcomes but not yet a theorem; the multi-cycle no-gap statement belongs to the closed-loop model (C03/C06)'),
    'C07': dict(engine='coord', module='Kvass.Props.C07', assumptions=COORD_ASSUME,
                partial='proved: Spec.C07.bounds for every request of the cycle, and no-shrink when max-idle-time = 0; keepsNeeded (scale-down never removes a needed shard) and no-shrink under need-space are monitored on implementation and model outcomes, theorem pending'),
    'C08': dict(engine='coord', module='Kvass.Props.C08', assumptions=COORD_ASSUME,
                partial='proved: leftAlone, noNeedlessPush, noUpdates for every schedule; noSecondAssign and dstInSync (destination of a move is in sync) are monitored on implementation and model outcomes, theorem pending'),
    'C09': dict(engine='store', module='Kvass.Props.C09', timeout=3000, search_n=1,
                assumptions=['json decoding inverts encoding (hypothesis hde of the theorems; exercised with escaping-heavy values)', 'rename(2) is atomic and a process killed inside write(2) leaves a prefix; RLIMIT_FSIZE stands in for the kill / disk-full point', 'no power-loss model (no fsync reasoning)'],
                partial='none for the stated clauses at the model level; byte contents are abstract (enc/dec parameters)'),
    'C10': dict(engine='sidecar', module='Kvass.Props.C10', search_n=1200,
                assumptions=['update requests carry each hash once (what the coordinator sends); the clock is injected through the verif hook VerifSetTimeNow'],
                partial='update / scrape / restart step theorems hold from every state satisfying Cons and IdleInv, which are proved for every operation history; restart is proved at model level (Prop), the Bool monitor restartOk is evaluated on the real sidecar'),
    'C12': dict(engine='proxy', module='Kvass.Props.C12', search_n=800,
                assumptions=['gunzip is a function (the model sees the decompressed reads)', 'the stream parser reads its input to EOF or error', 'net/http ResponseWriter.Write writes everything or fails; short writes are covered for the tee reader alone (theorem over all write scripts; TestWrapReader-style micro engine not needed for http)'],
                partial='none for the stated clauses; content type is checked by the harness monitor only (not part of the abstract model)'),
    'C13': dict(engine='proxy', module='Kvass.Props.C13', search_n=800,
                assumptions=['net/http: the status is fixed by the first write, a later WriteHeader is ignored, panic(http.ErrAbortHandler) cuts the connection (validated against a real httptest server and client on every run)', 'timeouts are represented by their effect (request fails / body read fails)'],
                partial='none for the stated clauses'),
    'C14': dict(engine='sidecar', module='Kvass.Props.C14', search_n=1200,
                assumptions=['the float mean int64(float64(total)/float64(n)) equals integer division below 2^51 (n <= 3): exercised at exact multiples and neighbours', 'metric relabeling is a parameter (kept : Bool per sample) of the counting model; the real relabel engine runs in the harness'],
                partial='none for the stated clauses: counts, per-metric sums, sliding window over every result sequence, shard load formula'),
    'C15': dict(engine='labels', module='Kvass.Props.C15', search_n=1500,
                assumptions=['label names and values are byte strings; Go string comparison = byte-wise lexicographic order', 'xxhash64 and FNV-1a are implemented in Lean and compared bit for bit with the Go libraries on every generated target; nothing is claimed about their collision resistance'],
                partial='"different labels or URL give different hashes" is false of any 64-bit hash as a universal statement and is not a theorem: proved are order independence, being a function of (label set, URL), and injectivity of the byte encoding fed to xxhash; distinctness of single-difference pairs is tested by the engine'),
    'C16': dict(engine='cfghash', module='Kvass.Props.C16', search_n=30,
                assumptions=['hashstructure FormatV2 with default options is transcribed by hand into Lean (HS.hs) and compared bit for bit with the library on every reflected configuration; types customising hashing (Hashable/Includable) are reported as unsupported', 'YAML parsing / rendering (config.Load, Config.String) are library code: formatting independence is checked by the engine, not proved'],
                partial='"changes whenever any other setting changes" is not provable of a 64-bit hash; proved are: blindness of the struct walk to unexported fields (hence the need for the rendered text), independence of map order and of external labels; sensitivity to each kind of single-setting edit (incl. regex and secret edits) is monitored over an edit catalogue'),
    'C17': dict(engine='disc', module='Kvass.Props.C17', search_n=1500,
                assumptions=['a discovered target is represented by the outcome of its translation (key = final labels + URL, dropped, rejected); the label pipeline itself is C02/C15', 'TargetsDiscovery methods are atomic under their mutex (goroutine interleavings inside a method are not modelled)'],
                partial='update / reload / group theorems are per step, for every state; the explorer table is proved for reloads and compared with the real Explore on every history; readers running concurrently with writers are exercised only by the snapshot re-comparison'),
    'C19': dict(engine='replicas', module='Kvass.Props.C19', search_n=3000, assumptions=COORD_ASSUME,
                partial='independence is a theorem about the model of runOnce (map over replicas); that the Go code really is that map - no state carried from one replica to the next, explorer status objects not written through shared pointers - is what the replicas engine checks on every run (matching each replica next to the others against Coord.cycle of that replica alone, 1-2 cycles, and comparing explorer objects before/after); pointer aliasing is outside the value-level model'),
    'C20': dict(engine='explore', module='Kvass.Props.C20', timeout=3000, search_n=150,
                assumptions=['worker goroutines and timers are modelled as atomic steps (start / finish / timer) in arbitrary interleaving; the real channel is FIFO, the model lets a worker take any queued entry', 'the scrape manager keeps every job during reloads in the harness (a probe of an unknown job fails without an HTTP request)'],
                partial='token / success / retry / estimate theorems hold per entry (target identity) for every interleaving; per hash the property has the listed known findings when a target disappears and is discovered again while its old entry still has a queued or running probe; liveness is stated per step (failed probe arms a timer, the timer re-queues iff still listed), eventual success is checked by the engine'),
    'C18': dict(engine='k8s', module='Kvass.Props.C18', search_n=1,
                assumptions=['client-go fake clientset stands in for the API server; pod names are <sts>-<ordinal>'],
                partial='none for the stated clauses: exact deleted-claim set, replica count / no-op, ordinal order, rolling-update skip are theorems; readiness wait (2 min timer) is not part of the property'),
    'C04': dict(engine='coord', module='Kvass.Props.C04', assumptions=COORD_ASSUME,
                partial='theorem is stated on the ghost placement log (running load at placement time); the observable form Spec.C04.ok is monitored on every implementation outcome and on every enumerated model outcome'),
}

LEVEL_TEXT = {
    'C16': 'Machine-checked theorems (Lean 4) about a transcription of hashstructure v2 over a reflected value tree: the struct walk ignores every unexported field (all relabel regexes hash alike), map order and external labels do not matter. The transcription reproduces the real ConfigHash bit for bit on every configuration the engine reflects (coordinator and a child process); a catalogue of single-setting edits, re-formattings and external-label edits is monitored on the real ConfigManager.',
    'C15': 'Machine-checked theorems (Lean 4) about an executable re-implementation of targetHash (xxhash64 + FNV-1a, known-answer tested and compared bit for bit with the real hash of every generated target): invariance under every permutation of the labels (so group/target split and map order cannot matter), function of label set and URL, injective pre-hash encoding. The engine additionally compares hashes across discovery rounds, target orders, label splits and a freshly exec\'ed process.',
    'C19': 'Machine-checked theorems (Lean 4): runOnce yields for replica i exactly Coord.cycle of i\'s own reports, one result per replica whatever fails, hence C01/C04 guarantees per replica. The tie to the code is the replicas engine: the real runOnce with 2-3 replicas (list errors, scale errors, unready replicas, different placements) over 1-2 cycles; every replica\'s requests must be an outcome of the model on that replica alone, explorer status objects must be unchanged.',
    'C20': 'Machine-checked theorems (Lean 4) by induction over every interleaving of gets, discovery updates, reloads, probe starts, probe results and retry timers: an entry owns at most one token (queued / in flight / sleeping), tokens exist only for asked, not yet successful entries, no token after success, a failed probe arms exactly one timer that re-queues iff the same entry is still listed, the estimate is the successful probe\'s counts. Conditions regenerated from explore.go; linearised event logs of the real Explore with 1-3 workers are validated against the model with timers firing at any moment.',
    'C17': 'Machine-checked theorems (Lean 4), for every state and every update / reload: the sets of a job in an update become exactly its translation, other jobs keep theirs, a reload keeps listed jobs unchanged and removes the others in one step, all dropped targets are kept, a rejected target does not affect the rest of its group, explorer entries follow reloads. Conditions regenerated from discovery.go/translate.go/explore.go; validated on random histories through the real Run channel, ApplyConfig and Explore, with snapshot re-comparison.',
    'C12': 'Machine-checked theorems (Lean 4): for every chunking of the body and every sequence of short writes the tee reader forwards exactly the body (induction over chunks and over the short-write loop), and in every successful scenario the proxy answers 200 with exactly those bytes whether or not the target is assigned. Loop conditions regenerated from reader.go/proxy.go; validated against the real Proxy behind an HTTP server with scripted read sizes, gzip, all payload kinds.',
    'C13': 'Machine-checked theorems (Lean 4) over every scenario (failure kind x stop x assignment x every read sequence with a failing read at any position): a failed real scrape yields a non-200 or aborted response, health is truthful, the counter moves exactly once per attempt. Validated against the real Proxy for every byte offset of a multi-read body, three error kinds, gzip and identity.',
    'C09': 'Machine-checked theorems (Lean 4): the file-system protocol extracted from saveTargets on every run is write-temp-then-rename, and for that protocol every crash state (any byte offset, any earlier leftover temp file) loads as the previous or the new assignment; round trip. The real save is then cut at a sweep of byte offsets in a child process (SIGXFSZ kill and EFBIG) and the directory + a fresh Load are compared with the model.',
    'C10': 'Machine-checked theorems (Lean 4) by induction over every operation history (updates, scrapes, restarts): consistency and idle invariants for all reachable states, and step theorems giving exactly-the-requested keys, requested states, retained statistics, counter restart exactly on normal->in-transfer, idle-since semantics. Decision expressions regenerated from targets.go/service.go/status.go; the model is validated against the real TargetsManager+Service+Proxy on random histories every run.',
    'C14': 'Machine-checked theorems (Lean 4): sample counting (total, kept, per-metric sums) for every payload; series = integer mean of the last <=3 successful scrapes and total = last successful, for every result sequence; shard load = sums with the head-series floor. Validated against the real proxy/parser/relabel engine with payloads of known counts.',
    'C18': 'Machine-checked theorems (Lean 4) for all current/requested counts, template numbers and flags (Int/Nat, unbounded): a claim is deleted iff deletion is on and requested <= ordinal < current; exact replica count; no-op when unchanged; listing in ordinal order for every pod order. Loop bounds, conditions and name formats are regenerated from shardmanager.go on every run; the model is compared with the real package on a fake clientset exhaustively over [0,6]^2.',
    'C01': 'Machine-checked theorems (Lean 4): the monitored predicate Spec.C01.ok holds of the observable outcome of Coord.cycle for every schedule (map orders, random picks), every seriesWithRate and every input; the model calls decision expressions regenerated from the Go source on every run and is validated against the real coordinator on every run.',
    'C05': 'Machine-checked theorems (Lean 4): the hand-over threshold extracted from the source equals the documented 3, and no in-sync shard loses a discovered target unless it and a remaining holder have scraped it 3 times (Spec.C05.removal) for every schedule and input; move-step clause monitored.',
    'C07': 'Machine-checked theorems (Lean 4): every ChangeScale argument of a cycle lies in [min,max]; no request below the current count when max-idle-time = 0; remaining clauses monitored on the real coordinator and on all enumerated model outcomes.',
    'C08': 'Machine-checked theorems (Lean 4): the exact request sequence an unready / unreachable / out-of-sync shard receives, no needless config push, no target or extra-config update unless in sync, for every schedule and input; destination clauses monitored.',
    'C04': 'Machine-checked theorem (Lean 4) that every placement of Coord.cycle respects both limits on the running load, for all schedules/inputs; the model calls decision expressions regenerated from rebalance.go on every run, and each run validates the model against the real coordinator and monitors the observable form of the property on it.',
}

# properties not (yet) claimed; kept current as checks are added
NOT_APPLICABLE = {
    'C02': 'check under construction', 'C03': 'check under construction', 
    'C06': 'check under construction', 
    'C11': 'check under construction',
    'C14': 'check under construction',
}

ENGINES = [
    {'name': 'cfghash', 'path': 'harness/cmd/kvh/cfghash.go', 'kind_free_text': 'reflection dump of the parsed prometheus config (unexported fields included) hashed by the Lean model of hashstructure vs. ConfigManager.ConfigHash; edit catalogue; child process'},
    {'name': 'labels', 'path': 'harness/cmd/kvh/labels.go', 'kind_free_text': 'random scrape configs x target groups through the real TargetsDiscovery; hashes recomputed in Lean, compared across rounds / permutations / processes'},
    {'name': 'replicas', 'path': 'harness/cmd/kvh/replicas.go', 'kind_free_text': 'real Coordinator.runOnce with several replicas sharing options / discovered set / explorer objects, 1-2 cycles; per-replica outcomes matched against Coord.cycle alone through the coord driver'},
    {'name': 'explore', 'path': 'harness/cmd/kvh/explore.go', 'kind_free_text': 'real Explore.Run with 1-3 workers; probes block in an in-memory transport until released with a chosen result; event log validated against Explore.step (set-of-states simulation), plus per-hash monitors'},
    {'name': 'disc', 'path': 'harness/cmd/kvh/disc.go', 'kind_free_text': 'real TargetsDiscovery fed through Run\'s channel, ApplyConfig, Explore.UpdateTargets/ApplyConfig/Get; histories of updates and reloads trace-validated against Disc.step'},
    {'name': 'proxy', 'path': 'harness/cmd/kvh/proxy.go', 'kind_free_text': 'real sidecar Proxy behind an httptest server, real HTTP client, in-memory target with scripted read sizes / cut offsets / error kinds'},
    {'name': 'store', 'path': 'harness/cmd/kvh/store.go', 'kind_free_text': 'child process running the real UpdateTargets under RLIMIT_FSIZE=N (kill and EFBIG), then a fresh TargetsManager.Load(); directory state matched against the crash states of the extracted save protocol'},
    {'name': 'sidecar', 'path': 'harness/cmd/kvh/sidecar.go', 'kind_free_text': 'real TargetsManager + Service (HTTP handlers) + Proxy with a scripted target transport, driven by random operation histories; every step trace-validated against Sidecar.step and the relational specs'},
    {'name': 'k8s', 'path': 'harness/cmd/kvh/k8s.go', 'kind_free_text': 'real pkg/shard/kubernetes on a client-go fake clientset; scale cases exhaustive over small counts, shard listings random permutations'},
]
