"""property table for bin/check"""

TRUSTED_BASE = [
    "Lean 4.33 kernel (thorough tier: leanchecker re-check); axioms per theorem restricted to propext, Classical.choice, Quot.sound (audited on every run)",
    "extract/ (go/ast -> Lean): expression translation and the leaf table mapping Go selectors to model fields",
    "harness/ (Go): generators, canonicalisation, scripted shard/HTTP/k8s stubs, abstraction of Go values into model inputs",
    "Lean compiler for the driver executable (theorems are about the definitions; the driver runs them)",
    "statement structure of the Go code around the extracted expressions is modelled by hand and tied by the correspondence check only",
    "no int64 overflow, float rounding exact below 2^50, Go runtime scheduling not modelled (model operations are atomic)",
]

COORD_ASSUME = [
    "shard reports are sidecar-producible: series >= 0, no null status entries, idle-since set iff status empty, process series = sum of totals",
    "seriesWithRate is an arbitrary function in the theorems; the driver uses IEEE double multiply + truncation like Go",
]

PROPS = {
    'C04': dict(engine='coord', module='Kvass.Props.C04', assumptions=COORD_ASSUME,
                partial='theorem is stated on the ghost placement log (running load at placement time); the observable form Spec.C04.ok is monitored on every implementation outcome and on every enumerated model outcome'),
}

LEVEL_TEXT = {
    'C04': 'Machine-checked theorem (Lean 4) that every placement of Coord.cycle respects both limits on the running load, for all schedules/inputs; the model calls decision expressions regenerated from rebalance.go on every run, and each run validates the model against the real coordinator and monitors the observable form of the property on it.',
}

# properties not (yet) claimed; kept current as checks are added
NOT_APPLICABLE = {
    'C01': 'check under construction in this round (model exists; theorem pending)',
    'C02': 'check under construction', 'C03': 'check under construction', 'C05': 'check under construction',
    'C06': 'check under construction', 'C07': 'check under construction', 'C08': 'check under construction',
    'C09': 'check under construction', 'C10': 'check under construction', 'C11': 'check under construction',
    'C12': 'check under construction', 'C13': 'check under construction', 'C14': 'check under construction',
    'C15': 'check under construction', 'C16': 'check under construction', 'C17': 'check under construction',
    'C18': 'check under construction', 'C19': 'check under construction', 'C20': 'check under construction',
}
