//go:build verif
// +build verif

package sidecar

import "time"

// VerifSetTimeNow replaces the clock the targets manager reads (verification hook, build tag "verif").
func VerifSetTimeNow(f func() time.Time) {
	timeNow = f
}
