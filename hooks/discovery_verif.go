//go:build verif
// +build verif

package discovery

import (
	"github.com/prometheus/prometheus/config"
	"github.com/prometheus/prometheus/model/labels"
)

// VerifTargetHash exposes targetHash (verification hook, build tag "verif").
func VerifTargetHash(lbls labels.Labels, url string) uint64 {
	return targetHash(lbls.Copy(), url)
}

// VerifPopulateLabels exposes populateLabels (verification hook, build tag "verif").
func VerifPopulateLabels(lset labels.Labels, cfg *config.ScrapeConfig) (res, orig labels.Labels, err error) {
	return populateLabels(lset, cfg)
}
