//go:build verif
// +build verif

package kubernetes

import "time"

// VerifAgeStamps moves every "not ready since" stamp of the manager d into the past, as if d had
// passed since it was taken (verification hook, build tag "verif").
func (g *ReplicasManager) VerifAgeStamps(d time.Duration) {
	for name, t := range g.stsUpdatedTime {
		if t != nil {
			old := t.Add(-d)
			g.stsUpdatedTime[name] = &old
		}
	}
}
