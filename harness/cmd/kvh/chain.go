package main

// Engine "chain" (C02): discovery -> JSON -> config injection -> Prometheus config loading ->
// Prometheus label population on the shard -> Target.URL -> sidecar proxy -> outgoing request,
// compared with scrape.TargetsFromGroup of the vendored Prometheus on the original job.

import (
	"context"
	"encoding/json"
	"fmt"
	"io"
	"net/http"
	"net/http/httptest"
	"net/url"
	"os"
	"path/filepath"
	"regexp"
	"sort"
	"strings"
	"sync"
	"time"

	kitlog "github.com/go-kit/log"
	"github.com/prometheus/client_golang/prometheus"
	"github.com/prometheus/prometheus/config"
	pdiscovery "github.com/prometheus/prometheus/discovery"
	"github.com/prometheus/prometheus/discovery/targetgroup"
	"github.com/prometheus/prometheus/model/labels"
	pscrape "github.com/prometheus/prometheus/scrape"

	"tkestack.io/kvass/pkg/discovery"
	"tkestack.io/kvass/pkg/prom"
	kscrape "tkestack.io/kvass/pkg/scrape"
	"tkestack.io/kvass/pkg/sidecar"
	"tkestack.io/kvass/pkg/target"
)

type recordRT struct {
	sync.Mutex
	urls []*url.URL
}

func (r *recordRT) RoundTrip(req *http.Request) (*http.Response, error) {
	r.Lock()
	u := *req.URL
	r.urls = append(r.urls, &u)
	r.Unlock()
	return &http.Response{StatusCode: 200, Status: "200 OK", Header: http.Header{"Content-Type": []string{"text/plain"}},
		Body: io.NopCloser(strings.NewReader("up 1\n")), Request: req}, nil
}

// abstraction of strings into the model's structured names and numbered values
type chainAbs struct {
	vals  map[string]int64
	names map[string]int64
	pn    map[string]int64
}

func newChainAbs() *chainAbs {
	return &chainAbs{vals: map[string]int64{"": 0, "http": 1, "https": 2}, names: map[string]int64{}, pn: map[string]int64{"_hash": 0, "_jobName": 1, "_scheme": 2}}
}
func (a *chainAbs) val(s string) int64 {
	if v, ok := a.vals[s]; ok {
		return v
	}
	v := int64(len(a.vals))
	a.vals[s] = v
	return v
}
func (a *chainAbs) pname(s string) int64 {
	if v, ok := a.pn[s]; ok {
		return v
	}
	v := int64(len(a.pn))
	a.pn[s] = v
	return v
}
func (a *chainAbs) id(s string) int64 {
	if v, ok := a.names[s]; ok {
		return v
	}
	v := int64(len(a.names))
	a.names[s] = v
	return v
}

var validName = regexp.MustCompile(`^[a-zA-Z_][a-zA-Z0-9_]*$`)

const invalidMarker = "__invalid_label_"

// (tag, id) as in Kvass/Driver/Chain.lean
func (a *chainAbs) name(s string) (int64, int64) {
	switch s {
	case "__address__":
		return 0, 0
	case "__scheme__":
		return 1, 0
	case "__metrics_path__":
		return 2, 0
	case "job":
		return 3, 0
	case "instance":
		return 4, 0
	}
	switch {
	case strings.HasPrefix(s, "__param_"):
		return 5, a.pname(strings.TrimPrefix(s, "__param_"))
	case strings.HasPrefix(s, invalidMarker):
		rest := strings.TrimPrefix(s, invalidMarker)
		if validName.MatchString(s) && !validName.MatchString(rest) {
			return 11, a.id(rest)
		}
		return 9, a.id(rest)
	case !validName.MatchString(s):
		if validName.MatchString(invalidMarker + s) {
			return 10, a.id(s) // invalid only because of its first character
		}
		return 8, a.id(s)
	case strings.HasPrefix(s, "__"):
		return 6, a.id(s)
	}
	return 7, a.id(s)
}

func (a *chainAbs) encLabels(w *ints, l labels.Labels) {
	w.add(int64(len(l)))
	for _, x := range l {
		t, id := a.name(x.Name)
		v := x.Value
		if x.Name == "__metrics_path__" && v != "" && !strings.HasPrefix(v, "/") {
			v = "/" + v // what goes on the request line either way
		}
		w.add(t, id, a.val(v))
	}
}

func (a *chainAbs) encQuery(w *ints, q url.Values) {
	keys := []string{}
	for k := range q {
		keys = append(keys, k)
	}
	sort.Strings(keys)
	w.add(int64(len(keys)))
	for _, k := range keys {
		w.add(a.pname(k), int64(len(q[k])))
		for _, v := range q[k] {
			w.add(a.val(v))
		}
	}
}

func publicOf(l labels.Labels) string {
	out := labels.Labels{}
	for _, x := range l {
		if !strings.HasPrefix(x.Name, "__") {
			out = append(out, x)
		}
	}
	sort.Sort(out)
	return out.String()
}

func canonURL(u *url.URL) string {
	c := *u
	c.RawQuery = u.Query().Encode()
	return c.String()
}

// what one plain Prometheus would scrape for the job: set of (public labels, URL); and how many it drops
func referenceTargets(c *LCase, job *config.ScrapeConfig) (map[string]bool, int, []string) {
	set := map[string]bool{}
	dropped := 0
	errs := []string{}
	for i := range c.Groups {
		ts, failures := pscrape.TargetsFromGroup(c.Groups[i].toGroup(i), job)
		for _, e := range failures {
			errs = append(errs, e.Error())
		}
		for _, t := range ts {
			if t.Labels().Len() == 0 {
				dropped++
				continue
			}
			set[publicOf(t.Labels())+" -> "+canonURL(t.URL())] = true
		}
	}
	return set, dropped, errs
}

type chainTarget struct {
	Hash      uint64
	L         labels.Labels // final labels at the coordinator (kvass' own population)
	CoordURL  string
	Loaded    bool
	LoadErr   string
	Shard     labels.Labels // final labels of the shard's target
	ShardURL  *url.URL
	Real      *url.URL // what the proxy requested
	ProxyCode int
}

// runChain pushes the case through the real components
func runChain(c *LCase, work string) (cfg *prom.ConfigInfo, ts []*chainTarget, droppedK int, err error) {
	cfg, err = lcaseConfig(c)
	if err != nil {
		return nil, nil, 0, err
	}
	job := cfg.Config.ScrapeConfigs[0]
	td := discovery.New(quietLog())
	_ = td.ApplyConfig(cfg)
	ctx, cancel := context.WithCancel(context.Background())
	defer cancel()
	ch := make(chan map[string][]*targetgroup.Group)
	go func() { _ = td.Run(ctx, ch) }()
	gs := []*targetgroup.Group{}
	for i := range c.Groups {
		gs = append(gs, c.Groups[i].toGroup(i))
	}
	ch <- map[string][]*targetgroup.Group{"j": gs}
	select {
	case <-td.ActiveTargetsChan():
	case <-time.After(5 * time.Second):
		return nil, nil, 0, fmt.Errorf("no notification from discovery")
	}
	droppedK = len(td.DropTargets()["j"])
	byHash := td.ActiveTargetsByHash()
	// the map the coordinator assigns from, shipped as JSON
	assigned := map[string][]*target.Target{}
	hashes := []uint64{}
	for h := range byHash {
		hashes = append(hashes, h)
	}
	sort.Slice(hashes, func(i, j int) bool { return hashes[i] < hashes[j] })
	for _, h := range hashes {
		sdt := byHash[h]
		data, e := json.Marshal(sdt.ShardTarget)
		if e != nil {
			return nil, nil, 0, e
		}
		st := &target.Target{}
		if e := json.Unmarshal(data, st); e != nil {
			return nil, nil, 0, e
		}
		assigned[sdt.Job] = append(assigned[sdt.Job], st)
	}
	// final labels at the coordinator, per hash (kvass' own population, through the hook)
	finals := map[uint64]labels.Labels{}
	for gi := range c.Groups {
		for ti := range c.Groups[gi].Targets {
			lset := lsetOf(&c.Groups[gi], &c.Groups[gi].Targets[ti])
			res, _, e := discovery.VerifPopulateLabels(lset, job)
			if e != nil || res == nil {
				continue
			}
			tar := pscrape.NewTarget(res, nil, job.Params)
			h := discovery.VerifTargetHash(res, tar.URL().String())
			finals[h] = res
		}
	}
	// generated file
	out := filepath.Join(work, fmt.Sprintf("chain-%d.yml", os.Getpid()))
	defer os.Remove(out)
	inj := sidecar.NewInjector(out, sidecar.InjectConfigOptions{ProxyURL: "http://127.0.0.1:8008"}, prometheus.NewRegistry(), quietLog())
	if e := inj.ApplyConfig(cfg); e != nil {
		return nil, nil, 0, e
	}
	if e := inj.UpdateTargets(assigned); e != nil {
		return nil, nil, 0, e
	}
	for _, h := range hashes {
		ct := &chainTarget{Hash: h, L: finals[h], CoordURL: canonURL(byHash[h].PromTarget.URL())}
		ts = append(ts, ct)
	}
	genCfg, e := config.LoadFile(out, false, false, kitlog.NewNopLogger())
	if e != nil {
		for _, ct := range ts {
			ct.LoadErr = e.Error()
		}
		return cfg, ts, droppedK, nil
	}
	var genJob *config.ScrapeConfig
	for _, j := range genCfg.ScrapeConfigs {
		if j.JobName == "j" {
			genJob = j
		}
	}
	if genJob == nil {
		return nil, nil, 0, fmt.Errorf("job missing in the generated file")
	}
	// the sidecar's proxy with the real scrape manager's job, outgoing requests recorded
	sm := kscrape.New(false, quietLog())
	if e := sm.ApplyConfig(cfg); e != nil {
		return nil, nil, 0, e
	}
	ji := sm.GetJob("j")
	if ji == nil {
		return nil, nil, 0, fmt.Errorf("scrape manager has no job j")
	}
	rec := &recordRT{}
	ji.Cli = &http.Client{Transport: rec}
	proxy := sidecar.NewProxy(sm.GetJob, func() map[uint64]*target.ScrapeStatus { return map[uint64]*target.ScrapeStatus{} },
		func() *prom.ConfigInfo { return cfg }, prometheus.NewRegistry(), quietLog())
	index := map[uint64]*chainTarget{}
	for _, ct := range ts {
		ct.Loaded = true
		index[ct.Hash] = ct
	}
	groups := staticGroupsOf(genJob)
	for _, g := range groups {
		shardTs, _ := pscrape.TargetsFromGroup(g, genJob)
		for _, st := range shardTs {
			if st.Labels().Len() == 0 {
				continue
			}
			var h uint64
			fmt.Sscan(st.URL().Query().Get("_hash"), &h)
			ct := index[h]
			if ct == nil {
				ct = &chainTarget{Hash: h, Loaded: true}
				ts = append(ts, ct)
				index[h] = ct
			}
			// all labels of the shard's target
			m := map[string]string{}
			for k, v := range g.Labels {
				m[string(k)] = string(v)
			}
			for k, v := range g.Targets[0] {
				m[string(k)] = string(v)
			}
			lset := labels.FromMap(m)
			full, _, e := pscrape.PopulateLabels(lset, genJob)
			if e == nil {
				ct.Shard = full
			}
			ct.ShardURL = st.URL()
			before := len(rec.urls)
			w := httptest.NewRecorder()
			proxy.ServeHTTP(w, httptest.NewRequest("GET", st.URL().String(), nil))
			ct.ProxyCode = w.Code
			if len(rec.urls) > before {
				ct.Real = rec.urls[len(rec.urls)-1]
			}
		}
	}
	return cfg, ts, droppedK, nil
}

func staticGroupsOf(j *config.ScrapeConfig) []*targetgroup.Group {
	var out []*targetgroup.Group
	for _, sdc := range j.ServiceDiscoveryConfigs {
		if sc, ok := sdc.(pdiscovery.StaticConfig); ok {
			out = append(out, sc...)
		}
	}
	return out
}

func runChainEngine(a Args) *Result {
	res := newResult("chain", a.seed, a.tier)
	res.Rule = "random scrape configs (scheme, path, params incl. empty lists and routing-parameter names, relabel programs: replace incl. __param_* / __scheme__ / __metrics_path__ / job / instance targets, keep, drop, labelmap, labeldrop, hashmod) x target groups (addresses with and without port, IPv6, group vs target labels, invalid label names, duplicates, address-less targets, per-target __param_ labels) through real discovery -> JSON -> Injector -> config.LoadFile -> Prometheus label population -> Target.URL -> sidecar Proxy with a recording client; compared with scrape.TargetsFromGroup on the original job (set of public labels + URL, de-duplicated); non-trivial = a target survived relabeling; distinct by (labels, url)"
	rng := NewRng(a.seed)
	n := 250
	if a.tier == "thorough" {
		n = 5000
	}
	if a.n > 0 {
		n = a.n
	}
	work := a.workdir
	if work == "" {
		work = os.TempDir()
	}
	_ = os.MkdirAll(work, 0755)
	var cases []*LCase
	load := func(path string) {
		data, err := os.ReadFile(path)
		if err != nil {
			return
		}
		var wrap struct {
			Case *LCase `json:"case"`
		}
		if json.Unmarshal(data, &wrap) == nil && wrap.Case != nil {
			cases = append(cases, wrap.Case)
		}
	}
	if a.replay != "" {
		load(a.replay)
		n = 0
	} else if a.corpus != "" {
		files, _ := os.ReadDir(a.corpus)
		for _, f := range files {
			load(a.corpus + "/" + f.Name())
		}
		res.Dist["corpus_cases"] = len(cases)
	}
	for i := 0; i < n; i++ {
		cases = append(cases, genChainCase(rng.Fork()))
	}
	type item struct {
		c     *LCase
		ct    *chainTarget
		okRef bool
		want  string
		got   string
	}
	var items []item
	var lines []string
	distinct := map[string]bool{}
	viol := func(clause, what string, c *LCase) {
		res.ImplViol = capViol(res.ImplViol, Violation{Property: "C02", Clause: clause, Signature: "C02/" + clause, What: what,
			Case: map[string]interface{}{"case": c}}, 2)
	}
	for _, c := range cases {
		cfg, ts, droppedK, err := runChain(c, work)
		if err != nil {
			if cfg == nil && strings.Contains(err.Error(), "yaml") {
				res.count("config_rejected")
			} else {
				res.count("harness_skipped")
				res.Notes = append(res.Notes, err.Error())
			}
			continue
		}
		res.Evaluations++
		job := cfg.Config.ScrapeConfigs[0]
		ref, droppedRef, _ := referenceTargets(c, job)
		// (a) the coordinator's view against the library: same targets, labels, URLs, same number dropped
		coord := map[string]bool{}
		for _, ct := range ts {
			if ct.L != nil {
				coord[publicOf(ct.L)+" -> "+ct.CoordURL] = true
			}
		}
		for k := range ref {
			if !coord[k] {
				viol("discovery/missing", "a target plain Prometheus would scrape is not among the coordinator's active targets: "+k, c)
			}
		}
		for k := range coord {
			if !ref[k] {
				viol("discovery/extra", "the coordinator has an active target plain Prometheus would not have: "+k, c)
			}
		}
		if droppedK != droppedRef {
			viol("discovery/dropped", fmt.Sprintf("plain Prometheus drops %d targets of these groups, kvass lists %d dropped targets", droppedRef, droppedK), c)
		}
		// (b) every target through the chain
		abs := newChainAbs()
		for _, ct := range ts {
			if ct.L == nil {
				res.Mismatch = capViol(res.Mismatch, Violation{Property: "C02", Clause: "harness", Signature: "no-final-labels",
					What: fmt.Sprintf("active target %d has no final labels recomputed by the harness", ct.Hash), Case: map[string]interface{}{"case": c}}, 2)
				continue
			}
			if !ct.Loaded {
				// the file is rejected as a whole; only the targets that cause it are judged
				own := false
				for _, l := range ct.L {
					if t, _ := abs.name(l.Name); t == 8 || t == 9 {
						own = true
					}
				}
				if !own {
					res.count("targets_skipped_file_rejected_by_another_target")
					continue
				}
			}
			want := publicOf(ct.L) + " -> " + ct.CoordURL
			got := ""
			if ct.Loaded && ct.Shard != nil && ct.Real != nil {
				got = publicOf(ct.Shard) + " -> " + canonURL(ct.Real)
			} else if !ct.Loaded {
				got = "generated file rejected: " + ct.LoadErr
			} else {
				got = fmt.Sprintf("no request left the proxy (status %d)", ct.ProxyCode)
			}
			if !distinct[want] {
				distinct[want] = true
				res.Distinct++
			}
			w := &ints{}
			w.add(int64(len(items)))
			w.add(abs.val(job.JobName), abs.val(job.MetricsPath), abs.val(job.Scheme))
			keys := []string{}
			for k := range job.Params {
				keys = append(keys, k)
			}
			sort.Strings(keys)
			w.add(int64(len(keys)))
			for _, k := range keys {
				w.add(abs.pname(k))
			}
			abs.encQuery(w, job.Params)
			w.add(abs.val(fmt.Sprint(ct.Hash)))
			abs.encLabels(w, ct.L)
			w.bool(ct.Loaded)
			if ct.Loaded && ct.Shard != nil && ct.Real != nil {
				abs.encLabels(w, ct.Shard)
				host := ct.Real.Host
				w.add(abs.val(ct.Real.Scheme), abs.val(host), abs.val(ct.Real.Path))
				abs.encQuery(w, ct.Real.Query())
				w.add(abs.val(ct.ShardURL.Query().Get("_jobName")), abs.val(ct.ShardURL.Query().Get("_hash")))
			} else {
				w.add(0, 0, 0, 0, 0, 0, 0)
				if ct.Loaded {
					// loaded but the target did not come through: let the comparison fail visibly
					res.count("target_lost_after_load")
				}
			}
			lines = append(lines, w.String())
			items = append(items, item{c: c, ct: ct, okRef: want == got, want: want, got: got})
		}
	}
	answers, err := runDriver(a.driver, "chain", lines)
	if err != nil {
		res.Mismatch = append(res.Mismatch, Violation{Property: "C02", Clause: "driver", Signature: "driver-failure", What: err.Error()})
		return res
	}
	for i, ans := range answers {
		it := items[i]
		full := map[string]interface{}{"case": it.c, "target": it.want}
		f := fieldsAfter(ans, fmt.Sprint(i))
		if !strings.HasPrefix(ans, "case ") {
			res.Mismatch = capViol(res.Mismatch, Violation{Property: "C02", Clause: "bad-op", Signature: "bad-op", What: ans, Case: full, Line: lines[i]}, 2)
			continue
		}
		res.Traces++
		wf := f["wf"]
		res.count("wf_" + wf)
		if f["match"] != "1" {
			res.Mismatch = capViol(res.Mismatch, Violation{Property: "C02", Clause: "chain", Signature: "chain-model",
				What: "the real chain differs from Chain.shardLabels / realRequest for this target: " + ans + "; real: " + it.got, Case: full, Line: lines[i]}, 3)
			// the comparison with plain Prometheus needs no model: it is judged all the same
		}
		if !it.okRef {
			clause := "roundtrip/" + wf
			if wf == "ok" {
				clause = "roundtrip"
			}
			viol(clause, fmt.Sprintf("plain Prometheus: %s; sharded: %s", it.want, it.got), it.c)
		} else if wf != "ok" {
			res.count("wf_violated_but_equal")
		}
		if len(res.Samples) < 3 {
			res.addSample(map[string]interface{}{"target": it.want, "answer": ans})
		}
	}
	return res
}

// the labels generator plus what C02 needs: per-target __param_ labels, routing-parameter names
func genChainCase(r *Rng) *LCase {
	c := genLabelsCase(r)
	if !r.Chance(8) {
		// label names that are not valid Prometheus names make the whole generated file unloadable
		// (known finding): keep them to a few cases so that the rest of the chain is exercised
		for gi := range c.Groups {
			for _, n := range []string{"bad-name", "1digit", "x.y"} {
				delete(c.Groups[gi].Labels, n)
				for ti := range c.Groups[gi].Targets {
					delete(c.Groups[gi].Targets[ti].Labels, n)
				}
			}
		}
	}
	for gi := range c.Groups {
		for ti := range c.Groups[gi].Targets {
			t := &c.Groups[gi].Targets[ti]
			if r.Chance(15) {
				t.Labels["__param_target"] = r.PickS("t1", "t2")
			}
			if r.Chance(8) {
				t.Labels["__param_module"] = r.PickS("mx", "m0")
			}
			if r.Chance(2) {
				t.Labels["__param__hash"] = "123"
			}
			if r.Chance(5) {
				t.Labels["__metrics_path__"] = "/custom"
			}
			// an ordinary label that happens to be named like a URL parameter of the job
			if r.Chance(10) {
				t.Labels[r.PickS("module", "target")] = r.PickS("lv", "prod")
			}
		}
		// the multi-target exporter pattern: several targets behind one address, told apart by a parameter
		if r.Chance(12) && len(c.Groups[gi].Targets) > 0 {
			base := c.Groups[gi].Targets[0]
			for k := 0; k < 2; k++ {
				cp := LTarget{Labels: map[string]string{}}
				for kk, v := range base.Labels {
					cp.Labels[kk] = v
				}
				cp.Labels["__param_target"] = fmt.Sprintf("probe%d", k)
				cp.Labels["instance"] = fmt.Sprintf("probe%d", k)
				c.Groups[gi].Targets = append(c.Groups[gi].Targets, cp)
			}
		}
	}
	return c
}
