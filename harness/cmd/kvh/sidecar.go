package main

// Engine "sidecar": the real TargetsManager + Service + Proxy driven by operation histories (C10, C14).

import (
	"bytes"
	"encoding/json"
	"fmt"
	"io"
	"net/http"
	"net/http/httptest"
	"os"
	"regexp"
	"sort"
	"strings"
	"sync"
	"time"

	"github.com/gin-gonic/gin"
	"github.com/prometheus/client_golang/prometheus"
	"github.com/prometheus/prometheus/model/labels"

	"tkestack.io/kvass/pkg/prom"
	"tkestack.io/kvass/pkg/scrape"
	"tkestack.io/kvass/pkg/shard"
	"tkestack.io/kvass/pkg/sidecar"
	"tkestack.io/kvass/pkg/target"
)

type STgt struct {
	Hash   uint64 `json:"h"`
	Series int64  `json:"series"`
	Total  int64  `json:"total"`
	State  int    `json:"state"`
	Job    int    `json:"job"`
}
type SOp struct {
	Kind string `json:"kind"` // update | scrape | restart
	Req  []STgt `json:"req,omitempty"`
	// job keys that are present in the update request with an empty target list
	EmptyJobs []int  `json:"emptyJobs,omitempty"`
	Hash      uint64 `json:"h,omitempty"`
	Ok        bool   `json:"ok,omitempty"`
	Scraped   int64  `json:"scraped,omitempty"`
	Total     int64  `json:"total,omitempty"`
}
type SEnt struct {
	Hash   uint64 `json:"h"`
	Health int    `json:"health"`
	Series int64  `json:"series"`
	Total  int64  `json:"total"`
	State  int    `json:"state"`
	Times  uint64 `json:"times"`
}
type SObs struct {
	Status []SEnt `json:"status"`
	Head   int64  `json:"head"`
	Proc   int64  `json:"proc"`
	Idle   int64  `json:"idle"` // clock index, -1 = not idle
}
type SCase struct {
	PromHead int64 `json:"promHead"`
	Ops      []SOp `json:"ops"`
}

const sidecarCfg = `
global:
  scrape_interval: 15s
scrape_configs:
- job_name: job0
  scrape_timeout: 2s
  metric_relabel_configs:
  - source_labels: [__name__]
    regex: drop_.*
    action: drop
- job_name: job1
  scrape_timeout: 2s
  metric_relabel_configs:
  - source_labels: [__name__]
    regex: drop_.*
    action: drop
  - source_labels: [__name__, verdict]
    regex: keep_a.*;drop
    action: drop
`

var ginOnce sync.Once

type scriptedRT struct {
	f func(r *http.Request) (*http.Response, error)
}

func (s *scriptedRT) RoundTrip(r *http.Request) (*http.Response, error) { return s.f(r) }

type sidecarRig struct {
	dir     string
	clock   *int64
	base    time.Time
	cfg     *prom.ConfigManager
	sm      *scrape.Manager
	tm      *sidecar.TargetsManager
	svc     *sidecar.Service
	proxy   *sidecar.Proxy
	head    int64
	payload func(r *http.Request) (*http.Response, error)
	nScrape int
}

func newSidecarRig(dir string, head int64, clock *int64, base time.Time) (*sidecarRig, error) {
	ginOnce.Do(func() {
		gin.SetMode(gin.ReleaseMode)
		gin.DefaultWriter = io.Discard
		gin.DefaultErrorWriter = io.Discard
	})
	lg := quietLog()
	r := &sidecarRig{dir: dir, clock: clock, base: base, head: head}
	sidecar.VerifSetTimeNow(func() time.Time { return base.Add(time.Duration(*clock) * time.Second) })
	reg := prometheus.NewRegistry()
	r.cfg = prom.NewConfigManager()
	r.sm = scrape.New(false, lg)
	r.tm = sidecar.NewTargetsManager(dir, reg, lg)
	r.cfg.AddReloadCallbacks(r.sm.ApplyConfig)
	if err := r.cfg.ReloadFromRaw([]byte(sidecarCfg)); err != nil {
		return nil, err
	}
	if err := r.installTransports(); err != nil {
		return nil, err
	}
	r.proxy = sidecar.NewProxy(r.sm.GetJob, func() map[uint64]*target.ScrapeStatus { return r.tm.TargetsInfo().Status },
		r.cfg.ConfigInfo, reg, lg)
	r.svc = sidecar.NewService("", "http://127.0.0.1:1", func() (int64, error) { return r.head, nil }, r.cfg, r.tm, reg, lg)
	if err := r.tm.Load(); err != nil {
		return nil, err
	}
	return r, nil
}

// installTransports gives the job objects of the scrape manager the scripted target transport; a
// configuration reload builds new job objects, so it has to be repeated after one
func (r *sidecarRig) installTransports() error {
	for _, j := range []string{"job0", "job1"} {
		ji := r.sm.GetJob(j)
		if ji == nil {
			return fmt.Errorf("job %s missing", j)
		}
		ji.Cli = &http.Client{Transport: &scriptedRT{f: func(req *http.Request) (*http.Response, error) { return r.payload(req) }}}
	}
	return nil
}

func (r *sidecarRig) get(path string, out interface{}) error {
	rec := httptest.NewRecorder()
	r.svc.ServeHTTP(rec, httptest.NewRequest("GET", path, nil))
	if rec.Code != 200 {
		return fmt.Errorf("GET %s: %d", path, rec.Code)
	}
	var wrap struct {
		Status string          `json:"status"`
		Data   json.RawMessage `json:"data"`
	}
	if err := json.Unmarshal(rec.Body.Bytes(), &wrap); err != nil {
		return err
	}
	return json.Unmarshal(wrap.Data, out)
}

func (r *sidecarRig) observe() (SObs, error) {
	o := SObs{Status: []SEnt{}, Idle: -1}
	st := map[uint64]*target.ScrapeStatus{}
	if err := r.get("/api/v1/shard/targets/status/", &st); err != nil {
		return o, err
	}
	for h, s := range st {
		e := SEnt{Hash: h, Series: s.Series, Total: s.TotalSeries, State: stateIdx(s.TargetState), Times: s.ScrapeTimes}
		switch s.Health {
		case "up":
			e.Health = 1
		case "down":
			e.Health = 2
		}
		o.Status = append(o.Status, e)
	}
	sort.Slice(o.Status, func(a, b int) bool { return o.Status[a].Hash < o.Status[b].Hash })
	rt := shard.RuntimeInfo{}
	if err := r.get("/api/v1/shard/runtimeinfo/", &rt); err != nil {
		return o, err
	}
	o.Head, o.Proc = rt.HeadSeries, rt.ProcessSeries
	if rt.IdleStartAt != nil {
		d := rt.IdleStartAt.Sub(r.base)
		if d%time.Second != 0 {
			o.Idle = 999999
		} else {
			o.Idle = int64(d / time.Second)
		}
	}
	return o, nil
}

func (r *sidecarRig) update(req []STgt, emptyJobs ...int) error {
	body := shard.UpdateTargetsRequest{Targets: map[string][]*target.Target{}}
	for _, j := range emptyJobs {
		body.Targets[fmt.Sprintf("job%d", j)] = []*target.Target{}
	}
	for _, t := range req {
		job := fmt.Sprintf("job%d", t.Job)
		body.Targets[job] = append(body.Targets[job], &target.Target{
			Hash: t.Hash, Series: t.Series, TotalSeries: t.Total, TargetState: stateOf(t.State),
			Labels: labels.FromStrings("__address__", fmt.Sprintf("10.1.0.%d:80", t.Hash), "__scheme__", "http", "__metrics_path__", "/metrics", "instance", fmt.Sprint(t.Hash)),
		})
	}
	data, _ := json.Marshal(&body)
	rec := httptest.NewRecorder()
	r.svc.ServeHTTP(rec, httptest.NewRequest("POST", "/api/v1/shard/targets/", bytes.NewReader(data)))
	if rec.Code != 200 {
		return fmt.Errorf("POST targets: %d %s", rec.Code, rec.Body.String())
	}
	return nil
}

func expoPayload(scraped, total int64, job int, tag string) string {
	var b strings.Builder
	fmt.Fprintf(&b, "# HELP keep_a%s something\n# TYPE keep_a%s gauge\n", tag, tag)
	dropped := total - scraped
	// job1 also drops by (name, label): samples of one metric name are judged differently, and for
	// odd totals the first sample of that name is a dropped one
	var byName int64
	if job == 1 {
		byName = dropped - dropped/2
	}
	emitByName := func() {
		for i := int64(0); i < byName; i++ {
			fmt.Fprintf(&b, "keep_a%s{i=\"d%d\",verdict=\"drop\"} 3\n", tag, i)
		}
	}
	if total%2 == 1 {
		emitByName()
	}
	for i := int64(0); i < scraped; i++ {
		if i%2 == 0 {
			fmt.Fprintf(&b, "keep_a%s{i=\"%d\"} %d\n", tag, i, i)
		} else {
			fmt.Fprintf(&b, "keep_b{i=\"%d\",z=\"y\"} 1\n", i) // a metric name all targets share
		}
	}
	b.WriteString("\n")
	for i := int64(0); i < dropped-byName; i++ {
		fmt.Fprintf(&b, "drop_c%s{i=\"%d\"} 2\n", tag, i)
	}
	if total%2 == 0 {
		emitByName()
	}
	return b.String()
}

func (r *sidecarRig) scrape(h uint64, job int, ok bool, scraped, total int64) int {
	// every target exposes its own metric names, of a length that changes from scrape to scrape
	r.nScrape++
	tag := fmt.Sprintf("_h%d_%s", h, strings.Repeat("x", r.nScrape%5))
	r.payload = func(req *http.Request) (*http.Response, error) {
		if !ok {
			return nil, fmt.Errorf("scripted connection error")
		}
		return &http.Response{StatusCode: 200, Status: "200 OK", Header: http.Header{"Content-Type": []string{"text/plain"}},
			Body: io.NopCloser(strings.NewReader(expoPayload(scraped, total, job, tag))), Request: req}, nil
	}
	rec := httptest.NewRecorder()
	url := fmt.Sprintf("http://10.1.0.%d:80/metrics?_jobName=job%d&_hash=%d&_scheme=http", h, job, h)
	r.proxy.ServeHTTP(rec, httptest.NewRequest("GET", url, nil))
	return rec.Code
}

func encSObs(w *ints, o SObs) {
	w.add(int64(len(o.Status)))
	for _, e := range o.Status {
		w.add(int64(e.Hash), int64(e.Health), e.Series, e.Total, int64(e.State), int64(e.Times))
	}
	w.add(o.Head, o.Proc, o.Idle)
}

func genSidecarCase(r *Rng, long bool) *SCase {
	c := &SCase{PromHead: r.PickI(0, 0, 3, 7, 40)}
	n := 4 + r.Intn(26)
	if long {
		n = 10 + r.Intn(50)
	}
	univ := 5
	jobOf := map[uint64]int{}
	var last []STgt
	for i := 0; i < n; i++ {
		switch k := r.Intn(10); {
		case k < 3:
			op := SOp{Kind: "update", Req: []STgt{}}
			mode := r.Intn(10)
			switch {
			case mode < 1: // empty
			case mode < 3 && last != nil: // repeat, maybe flip a state
				flip := map[uint64]bool{} // per hash, so that two entries of one target stay identical
				for _, t := range last {
					if _, ok := flip[t.Hash]; !ok {
						flip[t.Hash] = r.Chance(40)
					}
					if flip[t.Hash] {
						t.State = 1 - t.State
					}
					op.Req = append(op.Req, t)
				}
			default:
				for h := 1; h <= univ; h++ {
					if r.Chance(55) {
						t := STgt{Hash: uint64(h), Series: seriesDom[r.Intn(len(seriesDom))]}
						t.Total = t.Series + r.PickI(0, 2, 9)
						if r.Chance(30) {
							t.State = 1
						}
						if _, ok := jobOf[t.Hash]; !ok || r.Chance(15) { // moves between jobs
							jobOf[t.Hash] = r.Intn(2)
						}
						t.Job = jobOf[t.Hash]
						op.Req = append(op.Req, t)
					}
				}
			}
			// the same target listed under both job keys (a request as sent while a target moves from
			// one job to the other): identical entries, so the outcome does not depend on map order
			if len(op.Req) > 0 && mode >= 3 && r.Chance(20) {
				d := op.Req[r.Intn(len(op.Req))]
				d.Job = 1 - d.Job
				op.Req = append(op.Req, d)
			}
			last = op.Req
			// a job may be listed without any target (the assignment is what counts, not the job keys)
			if r.Chance(25) {
				used := map[int]bool{}
				for _, t := range op.Req {
					used[t.Job] = true
				}
				for j := 0; j < 2; j++ {
					if !used[j] && r.Chance(60) {
						op.EmptyJobs = append(op.EmptyJobs, j)
					}
				}
			}
			c.Ops = append(c.Ops, op)
		case k < 8:
			op := SOp{Kind: "scrape", Hash: uint64(1 + r.Intn(univ)), Ok: r.Chance(75)}
			if len(last) > 0 && r.Chance(80) {
				op.Hash = last[r.Intn(1+r.Intn(len(last)))].Hash // favour the first assigned targets
			}
			if op.Ok {
				op.Scraped = r.PickI(0, 1, 2, 3, 4, 5, 7, 10)
				op.Total = op.Scraped + r.PickI(0, 0, 1, 6)
				if r.Chance(3) {
					// a body of a few hundred KiB: the stream parser hands it over in several blocks, and
					// every metric family has samples in more than one of them; followed by a read of the
					// per-metric detail
					op.Scraped = int64(5000 + r.Intn(4000))
					op.Total = op.Scraped + int64(r.Intn(3000))
					c.Ops = append(c.Ops, op)
					c.Ops = append(c.Ops, SOp{Kind: "samples"})
					continue
				}
			}
			c.Ops = append(c.Ops, op)
		case k < 9 || !r.Chance(50):
			c.Ops = append(c.Ops, SOp{Kind: "samples"})
		default:
			c.Ops = append(c.Ops, SOp{Kind: "restart"})
		}
	}
	return c
}

var metricNameRe = regexp.MustCompile(`^((keep_a|drop_c)_h[0-9]+_x*|keep_b)$`)

// set by runSidecarCase when the per-metric detail names something no target exposed
var badMetricName string

func runSidecarCase(c *SCase, work string) (string, []SObs, error) {
	badMetricName = ""
	dir, err := os.MkdirTemp(work, "sc")
	if err != nil {
		return "", nil, err
	}
	defer os.RemoveAll(dir)
	clock := int64(0)
	base := time.Unix(1700000000, 0).UTC()
	rig, err := newSidecarRig(dir, c.PromHead, &clock, base)
	if err != nil {
		return "", nil, err
	}
	w := &ints{}
	w.add(c.PromHead)
	o, err := rig.observe()
	if err != nil {
		return "", nil, err
	}
	encSObs(w, o)
	obs := []SObs{o}
	w.add(int64(len(c.Ops)))
	jobOf := map[uint64]int{}
	for _, op := range c.Ops {
		if op.Kind != "samples" {
			clock++
		}
		switch op.Kind {
		case "update":
			for _, t := range op.Req {
				jobOf[t.Hash] = t.Job
			}
			if err := rig.update(op.Req, op.EmptyJobs...); err != nil {
				return "", nil, err
			}
			w.add(0, int64(len(op.Req)))
			for _, t := range op.Req {
				w.add(int64(t.Hash), t.Series, t.Total, int64(t.State), int64(t.Job))
			}
		case "samples":
			reads := [2]map[string]*scrape.StatisticsSeriesResult{}
			for k := 0; k < 2; k++ {
				reads[k] = map[string]*scrape.StatisticsSeriesResult{}
				if err := rig.get("/api/v1/shard/samples/?with_metrics_detail=true", &reads[k]); err != nil {
					return "", nil, err
				}
			}
			jobs := []string{}
			for j := range reads[0] {
				jobs = append(jobs, j)
			}
			sort.Strings(jobs)
			w.add(3, int64(len(jobs)))
			for _, j := range jobs {
				var jn int64
				fmt.Sscanf(j, "job%d", &jn)
				w.add(jn)
				for k := 0; k < 2; k++ {
					rr := reads[k][j]
					if rr == nil {
						w.add(-1, -1, -1)
						continue
					}
					var ps, pt float64
					for name, m := range rr.MetricsTotal {
						ps += m.Scraped
						pt += m.Total
						if !metricNameRe.MatchString(name) && badMetricName == "" {
							badMetricName = fmt.Sprintf("GET /samples lists a metric named %q for %s, no target ever exposed such a metric", name, j)
						}
					}
					w.add(int64(rr.ScrapedTotal), int64(ps), int64(pt))
				}
			}
		case "scrape":
			rig.scrape(op.Hash, jobOf[op.Hash], op.Ok, op.Scraped, op.Total)
			w.add(1, int64(op.Hash))
			w.bool(op.Ok)
			w.add(op.Scraped, op.Total)
		case "restart":
			rig, err = newSidecarRig(dir, c.PromHead, &clock, base)
			if err != nil {
				return "", nil, fmt.Errorf("restart: %v", err)
			}
			w.add(2)
		}
		o, err := rig.observe()
		if err != nil {
			return "", nil, err
		}
		encSObs(w, o)
		obs = append(obs, o)
	}
	return w.String(), obs, nil
}

// sidecarConfigPush: the coordinator's side of "out of sync" is scripted in the coord / loop engines;
// this is the sidecar's side, on the real Service: a pushed raw configuration is what the sidecar
// runs afterwards, and the hash it then reports is the hash anybody computes for that content; a
// refused push changes nothing.
func sidecarConfigPush(work string, res *Result) {
	dir, err := os.MkdirTemp(work, "cfgpush")
	if err != nil {
		return
	}
	defer os.RemoveAll(dir)
	clock := int64(0)
	rig, err := newSidecarRig(dir, 0, &clock, time.Unix(1700000000, 0).UTC())
	if err != nil {
		res.Notes = append(res.Notes, "config push scenario: "+err.Error())
		return
	}
	fresh := func(text string) string {
		cm := prom.NewConfigManager()
		if err := cm.ReloadFromRaw([]byte(text)); err != nil {
			return "error: " + err.Error()
		}
		return cm.ConfigInfo().ConfigHash
	}
	reported := func() string {
		info := shard.RuntimeInfo{}
		if err := rig.get("/api/v1/shard/runtimeinfo/", &info); err != nil {
			return "error: " + err.Error()
		}
		return info.ConfigHash
	}
	push := func(svc *sidecar.Service, text string) int {
		body, _ := json.Marshal(&shard.UpdateConfigRequest{RawContent: text})
		// the coordinator posts to the path without the trailing slash; the route is registered with it and
		// the client follows the 307 with method and body, as net/http does
		path := "/api/v1/status/config"
		for hop := 0; hop < 3; hop++ {
			rec := httptest.NewRecorder()
			svc.ServeHTTP(rec, httptest.NewRequest("POST", path, bytes.NewReader(body)))
			if (rec.Code == 307 || rec.Code == 308) && rec.Header().Get("Location") != "" {
				path = rec.Header().Get("Location")
				continue
			}
			return rec.Code
		}
		return 310
	}
	viol := func(clause, what string) {
		for _, p := range []string{"C08", "C16"} {
			res.ImplViol = capViol(res.ImplViol, Violation{Property: p, Clause: clause, Signature: p + "/" + clause, What: what,
				Case: map[string]interface{}{"scenario": "configPush"}}, 8)
		}
	}
	res.Evaluations++
	res.count("config_push_scenario")
	if got, want := reported(), fresh(sidecarCfg); got != want {
		viol("reportedHash", fmt.Sprintf("a sidecar started with a configuration reports hash %s, a fresh process computes %s for that content", got, want))
	}
	edited := strings.Replace(sidecarCfg, "scrape_timeout: 2s", "scrape_timeout: 3s", -1)
	if code := push(rig.svc, edited); code != 200 {
		viol("pushRefused", fmt.Sprintf("a valid raw configuration pushed to the sidecar is answered with status %d", code))
	}
	if got, want := reported(), fresh(edited); got != want {
		viol("reportedHash", fmt.Sprintf("after the current raw configuration was pushed the sidecar reports hash %s, the coordinator computes %s for that content: the shard never gets in sync", got, want))
	}
	if ji := rig.sm.GetJob("job0"); ji == nil || time.Duration(ji.Config.ScrapeTimeout) != 3*time.Second {
		viol("notApplied", "the sidecar reports the hash of the pushed configuration but its scrape jobs still run the previous one")
	}
	before := reported()
	if code := push(rig.svc, "scrape_configs: [ {job_name: 7"); code == 200 {
		viol("badAccepted", "an unparsable raw configuration is accepted by the sidecar")
	}
	if got := reported(); got != before {
		viol("badChanged", fmt.Sprintf("a refused configuration push changed the reported hash from %s to %s", before, got))
	}
	ext := strings.Replace(edited, "global:", "global:\n  external_labels: {replica: b}", 1)
	if fresh(ext) == fresh(edited) {
		_ = push(rig.svc, ext)
		if got := reported(); got != before {
			viol("extLabels", "pushing the same configuration with other external labels changes the reported hash")
		}
	}
	// two configurations with the same lines up to indentation, but a different meaning: tls_config of
	// the job, or of the job's oauth2 block
	const oauthX = `
global:
  scrape_interval: 15s
scrape_configs:
- job_name: job0
  scrape_timeout: 2s
  oauth2:
    client_id: a
    client_secret: b
    token_url: http://127.0.0.1:1/token
  tls_config:
    insecure_skip_verify: true
- job_name: job1
  scrape_timeout: 2s
`
	oauthY := strings.Replace(oauthX, "  tls_config:\n    insecure_skip_verify: true", "    tls_config:\n      insecure_skip_verify: true", 1)
	if hx, hy := fresh(oauthX), fresh(oauthY); !strings.HasPrefix(hx, "error") && !strings.HasPrefix(hy, "error") && hx != hy {
		res.count("config_push_reindented_pair")
		_ = push(rig.svc, oauthX)
		if got := reported(); got != hx {
			viol("reportedHash", fmt.Sprintf("after a push the sidecar reports hash %s, the coordinator computes %s for that content", got, hx))
		}
		_ = push(rig.svc, oauthY)
		if got := reported(); got != hy {
			viol("reportedHash", fmt.Sprintf("a pushed configuration that differs from the loaded one only by the indentation of a block (tls_config of the job vs. of its oauth2 settings) is acknowledged, but the sidecar reports hash %s, the coordinator computes %s: the shard never gets in sync", got, hy))
		}
	}
	// what the sidecar reports as its targets does not depend on the configuration it currently runs: a
	// shard whose configuration lacks a job (out of sync after a restart, say) still reports the targets of
	// that job it holds - the coordinator relies on it not to assign them a second time
	_ = push(rig.svc, sidecarCfg)
	_ = rig.installTransports()
	if err := rig.update([]STgt{{Hash: 5, Series: 10, Total: 10, State: 0, Job: 0}, {Hash: 6, Series: 10, Total: 10, State: 0, Job: 1}}); err == nil {
		onlyJob0 := "global:\n  scrape_interval: 15s\nscrape_configs:\n- job_name: job0\n  scrape_timeout: 2s\n"
		_ = push(rig.svc, onlyJob0)
		st := map[uint64]*target.ScrapeStatus{}
		if err := rig.get("/api/v1/shard/targets/status/", &st); err == nil {
			if _, ok := st[6]; !ok || len(st) != 2 {
				keys := []uint64{}
				for k := range st {
					keys = append(keys, k)
				}
				sort.Slice(keys, func(a, b int) bool { return keys[a] < keys[b] })
				msg := fmt.Sprintf("a sidecar that holds targets 5 (job0) and 6 (job1) and is pushed a configuration without job1 reports the targets %v: the coordinator takes the missing one for unscraped and assigns it a second time", keys)
				viol("statusFollowsConfig", msg)
				res.ImplViol = capViol(res.ImplViol, Violation{Property: "C10", Clause: "statusFollowsConfig", Signature: "C10/statusFollowsConfig", What: msg,
					Case: map[string]interface{}{"scenario": "configPush"}}, 8)
			}
		}
		_ = push(rig.svc, sidecarCfg)
		_ = rig.installTransports()
	}
	// a sidecar that reads its configuration from a file refuses pushes
	fileSvc := sidecar.NewService("/etc/prometheus/prometheus.yml", "http://127.0.0.1:1", func() (int64, error) { return 0, nil }, rig.cfg, rig.tm, prometheus.NewRegistry(), quietLog())
	h1 := reported()
	if code := push(fileSvc, sidecarCfg); code == 200 {
		viol("fileOverride", "a sidecar configured with a configuration file accepts a raw configuration push")
	}
	if got := reported(); got != h1 {
		viol("fileOverride", "a refused push (configuration file set) changed the configuration the sidecar runs")
	}
}

func runSidecar(a Args) *Result {
	res := newResult("sidecar", a.seed, a.tier)
	res.Rule = "random operation histories (updates with adds/removals/state flips/repeats/empty sets/moves between jobs/a target listed under two jobs at once, scrapes with known sample counts or failures, restarts from the store directory) against the real TargetsManager+Service+Proxy; a history is non-trivial when it contains a kept entry, a flip to in-transfer, a full window or a restart; distinct by encoded history"
	rng := NewRng(a.seed)
	n := 300
	if a.tier == "thorough" {
		n = 6000
	}
	if a.n > 0 {
		n = a.n
	}
	work := a.workdir
	if work == "" {
		work = os.TempDir()
	}
	_ = os.MkdirAll(work, 0755)
	if a.replay == "" && (a.wants("C08") || a.wants("C16") || a.wants("C10")) {
		sidecarConfigPush(work, res)
	}
	var cases []*SCase
	if a.corpus != "" {
		files, _ := os.ReadDir(a.corpus)
		for _, f := range files {
			data, err := os.ReadFile(a.corpus + "/" + f.Name())
			if err != nil {
				continue
			}
			var wrap struct {
				Case *SCase `json:"case"`
			}
			if json.Unmarshal(data, &wrap) == nil && wrap.Case != nil {
				cases = append(cases, wrap.Case)
			}
		}
	}
	for i := 0; i < n; i++ {
		cases = append(cases, genSidecarCase(rng.Fork(), a.tier == "thorough" && i%3 == 0))
	}
	var lines []string
	var kept []*SCase
	var keptObs [][]SObs
	for _, c := range cases {
		line, obs, err := runSidecarCase(c, work)
		if err != nil {
			res.ImplViol = capViol(res.ImplViol, Violation{Property: "*", Clause: "error", Signature: "sidecar/error",
				What: "the sidecar returned an error on a well-formed history: " + err.Error(), Case: map[string]interface{}{"case": c}}, 3)
			continue
		}
		if badMetricName != "" {
			res.ImplViol = capViol(res.ImplViol, Violation{Property: "C14", Clause: "metricNames", Signature: "C14/metricNames",
				What: badMetricName, Case: map[string]interface{}{"case": c}}, 2)
		}
		kept = append(kept, c)
		keptObs = append(keptObs, obs)
		lines = append(lines, fmt.Sprintf("%d %s", len(kept)-1, line))
		res.Evaluations += len(c.Ops)
	}
	answers, err := runDriver(a.driver, "sidecar", lines)
	if err != nil {
		res.Mismatch = append(res.Mismatch, Violation{Property: "*", Clause: "driver", Signature: "driver-failure", What: err.Error()})
		return res
	}
	distinct := map[string]bool{}
	for i, ans := range answers {
		full := map[string]interface{}{"case": kept[i], "observed": keptObs[i]}
		if !strings.HasPrefix(ans, "case ") {
			res.Mismatch = append(res.Mismatch, Violation{Property: "*", Clause: "bad-op", Signature: "bad-op", What: ans, Case: full})
			continue
		}
		top := fieldsAfter(ans, "case", "impl", "tags")
		impl := fieldsAfter(ans, "impl", "tags")
		tags := ""
		if idx := strings.Index(ans, " tags "); idx >= 0 {
			tags = strings.TrimSpace(ans[idx+6:])
		}
		nt := false
		for _, t := range strings.Split(tags, ",") {
			if t != "" {
				res.count("tag_" + t)
			}
			if t == "kept" || t == "flipToTransfer" || t == "windowFull" || t == "restart" {
				nt = true
			}
		}
		if nt {
			distinct[lines[i][strings.Index(lines[i], " ")+1:]] = true
		}
		res.Traces++
		if i < 2 {
			res.addSample(full)
		}
		if top["match"] != "1" {
			for _, p := range []string{"C10", "C14"} {
				if a.wants(p) {
					res.Mismatch = capViol(res.Mismatch, Violation{Property: p, Clause: "correspondence", Signature: "sidecar/nomatch",
						What: "model and real sidecar disagree after op " + strings.TrimPrefix(top["match"], "0@"), Case: full}, 3)
				}
			}
		}
		for p, v := range impl {
			if v != "ok" && a.wants(p) {
				cl := v
				if k := strings.Index(v, "@"); k >= 0 {
					cl = v[:k]
				}
				res.ImplViol = capViol(res.ImplViol, Violation{Property: p, Clause: cl, Signature: p + "/" + cl,
					What: fmt.Sprintf("Spec.SC.%s clause %s false on the real sidecar (%s)", p, cl, v), Case: full}, 3)
			}
			// the idle-since instant a shard reports is what the coordinator's scale-down trusts (C07)
			if p == "C10" && strings.HasPrefix(v, "idle") && a.wants("C07") {
				res.ImplViol = capViol(res.ImplViol, Violation{Property: "C07", Clause: "idleSince", Signature: "C07/idleSince",
					What: fmt.Sprintf("the idle-since instant the real sidecar reports is not the instant its assignment became empty (Spec.SC.C10 clause %s)", v), Case: full}, 3)
			}
		}
	}
	res.Distinct = len(distinct)
	return res
}
