package main

// Engine "coord": one coordination cycle of the real Coordinator against scripted shards.

import (
	"encoding/json"
	"fmt"
	"io"
	"os"
	"path/filepath"
	"sort"
	"strings"
	"time"

	"github.com/prometheus/client_golang/prometheus"
	"github.com/prometheus/prometheus/model/labels"
	pscrape "github.com/prometheus/prometheus/scrape"
	"github.com/sirupsen/logrus"

	"tkestack.io/kvass/pkg/coordinator"
	"tkestack.io/kvass/pkg/discovery"
	"tkestack.io/kvass/pkg/prom"
	"tkestack.io/kvass/pkg/shard"
	"tkestack.io/kvass/pkg/target"
)

type CSt struct {
	Hash   uint64 `json:"h"`
	Health int    `json:"health"` // 0 unknown 1 good 2 bad
	Series int64  `json:"series"`
	Total  int64  `json:"total"`
	State  int    `json:"state"` // 0 normal 1 in_transfer
	Times  uint64 `json:"times"`
}

type CRt struct {
	Ok   bool  `json:"ok"`
	Head int64 `json:"head"`
	Proc int64 `json:"proc"`
	Idle int   `json:"idle"` // 0 none 1 fresh 2 expired
	Eq   bool  `json:"eq"`
}

type CProbe struct {
	Ready    bool  `json:"ready"`
	StatusOk bool  `json:"statusOk"`
	Status   []CSt `json:"status"`
	Rt1      CRt   `json:"rt1"`
	PushOk   bool  `json:"pushOk"`
	Rt2      CRt   `json:"rt2"`
	PostOk   bool  `json:"postOk"`
}

type COpt struct {
	MaxHead  int64 `json:"maxHead"`
	MaxProc  int64 `json:"maxProc"`
	MaxShard int32 `json:"maxShard"`
	MinShard int32 `json:"minShard"`
	IdleOn   bool  `json:"idleOn"`
	DisAllev bool  `json:"disableAlleviate"`
}

type CCase struct {
	Opt       COpt     `json:"opt"`
	Active    []uint64 `json:"active"`
	Explore   []CSt    `json:"explore"`
	ScaleErr1 bool     `json:"scaleErr1"`
	Probes    []CProbe `json:"probes"`
}

type CBodyEnt struct {
	Hash   uint64 `json:"h"`
	State  int    `json:"state"`
	Series int64  `json:"series"`
}
type CReq struct {
	Kind int        `json:"kind"` // 0 getStatus 1 getRuntime 2 postConfig 3 postTargets 4 postExtra
	Body []CBodyEnt `json:"body,omitempty"`
}
type CObs struct {
	Crashed bool     `json:"crashed"`
	Scales  []int64  `json:"scales"`
	Reqs    [][]CReq `json:"reqs"`
}

func healthOf(i int) pscrape.TargetHealth {
	switch i {
	case 1:
		return pscrape.HealthGood
	case 2:
		return pscrape.HealthBad
	}
	return pscrape.HealthUnknown
}
func stateOf(i int) string {
	if i == 1 {
		return target.StateInTransfer
	}
	return target.StateNormal
}
func stateIdx(s string) int {
	if s == target.StateInTransfer {
		return 1
	}
	return 0
}

func (s CSt) status() *target.ScrapeStatus {
	st := target.NewScrapeStatus(s.Series, s.Total)
	st.Health = healthOf(s.Health)
	st.TargetState = stateOf(s.State)
	st.ScrapeTimes = s.Times
	return st
}

// ---- scripted shard manager ----

type coordMgr struct {
	c       *CCase
	obs     *CObs
	calls   int
	cfgHash string
}

func (m *coordMgr) Shards() ([]*shard.Shard, error) {
	lg := logrus.New()
	lg.SetOutput(io.Discard)
	ret := []*shard.Shard{}
	now := time.Now()
	for i := range m.c.Probes {
		p := &m.c.Probes[i]
		idx := i
		sd := shard.NewShard(fmt.Sprintf("shard-%d", i), fmt.Sprintf("http://s%d", i), p.Ready, lg)
		rtCalls := 0
		sd.APIGet = func(url string, ret interface{}) error {
			switch {
			case strings.HasSuffix(url, "/api/v1/shard/targets/status/"):
				m.obs.Reqs[idx] = append(m.obs.Reqs[idx], CReq{Kind: 0})
				if !p.StatusOk {
					return fmt.Errorf("scripted status error")
				}
				mp := map[uint64]*target.ScrapeStatus{}
				for _, s := range p.Status {
					mp[s.Hash] = s.status()
				}
				data, _ := json.Marshal(mp)
				return json.Unmarshal(data, ret)
			case strings.HasSuffix(url, "/api/v1/shard/runtimeinfo/"):
				m.obs.Reqs[idx] = append(m.obs.Reqs[idx], CReq{Kind: 1})
				rt := p.Rt1
				if rtCalls > 0 {
					rt = p.Rt2
				}
				rtCalls++
				if !rt.Ok {
					return fmt.Errorf("scripted runtime error")
				}
				info := &shard.RuntimeInfo{HeadSeries: rt.Head, ProcessSeries: rt.Proc, ConfigHash: "other"}
				if rt.Eq {
					info.ConfigHash = m.cfgHash
				}
				switch rt.Idle {
				case 1:
					t := now.Add(time.Hour)
					info.IdleStartAt = &t
				case 2:
					t := now.Add(-time.Hour)
					info.IdleStartAt = &t
				}
				data, _ := json.Marshal(info)
				return json.Unmarshal(data, ret)
			}
			return fmt.Errorf("unexpected GET %s", url)
		}
		sd.APIPost = func(url string, req interface{}, ret interface{}) error {
			switch {
			case strings.HasSuffix(url, "/api/v1/status/config"):
				m.obs.Reqs[idx] = append(m.obs.Reqs[idx], CReq{Kind: 2})
				if !p.PushOk {
					return fmt.Errorf("scripted push error")
				}
				return nil
			case strings.HasSuffix(url, "/api/v1/shard/targets/"):
				data, _ := json.Marshal(req)
				r := shard.UpdateTargetsRequest{}
				if err := json.Unmarshal(data, &r); err != nil {
					return err
				}
				body := []CBodyEnt{}
				for _, ts := range r.Targets {
					for _, t := range ts {
						body = append(body, CBodyEnt{Hash: t.Hash, State: stateIdx(t.TargetState), Series: t.Series})
					}
				}
				sort.Slice(body, func(a, b int) bool { return body[a].Hash < body[b].Hash })
				m.obs.Reqs[idx] = append(m.obs.Reqs[idx], CReq{Kind: 3, Body: body})
				if !p.PostOk {
					return fmt.Errorf("scripted post error")
				}
				return nil
			case strings.HasSuffix(url, "/api/v1/status/extra_config"):
				m.obs.Reqs[idx] = append(m.obs.Reqs[idx], CReq{Kind: 4})
				return nil
			}
			return fmt.Errorf("unexpected POST %s", url)
		}
		ret = append(ret, sd)
	}
	return ret, nil
}

func (m *coordMgr) ChangeScale(k int32) error {
	m.obs.Scales = append(m.obs.Scales, int64(k))
	m.calls++
	if m.calls == 1 && m.c.ScaleErr1 {
		return fmt.Errorf("scripted scale error")
	}
	return nil
}

type coordRep struct{ ms []shard.Manager }

func (r *coordRep) Replicas() ([]shard.Manager, error) { return r.ms, nil }

func coordActive(c *CCase) map[uint64]*discovery.SDTargets {
	active := map[uint64]*discovery.SDTargets{}
	for _, h := range c.Active {
		job := "job-a"
		if h%2 == 0 {
			job = "job-b"
		}
		active[h] = &discovery.SDTargets{Job: job, ShardTarget: &target.Target{
			Hash:   h,
			Labels: labels.FromStrings("__address__", fmt.Sprintf("10.0.0.%d:80", h), "__scheme__", "http", "__metrics_path__", "/metrics"),
		}}
	}
	return active
}

func coordOption(c *CCase) *coordinator.Option {
	opt := &coordinator.Option{
		MaxHeadSeries: c.Opt.MaxHead, MaxProcessSeries: c.Opt.MaxProc,
		MaxShard: c.Opt.MaxShard, MinShard: c.Opt.MinShard, DisableAlleviate: c.Opt.DisAllev,
		Period: time.Second,
	}
	if c.Opt.IdleOn {
		opt.MaxIdleTime = time.Second
	}
	return opt
}

// runCoordImpl runs the real coordinator once on the scripted case
func runCoordImpl(c *CCase) (obs CObs) {
	o, _, _ := runCoordImpl2(c, false)
	return o
}

// runCoordImpl2 runs the real coordinator on the scripted case and, when `again` is set, a second
// time on the same Coordinator object against the same scripted reports: the coordinator is
// long-lived in a deployment, and a cycle is a function of what the shards report in it - so the
// second observation has to be an outcome of the model for the same input as well
func runCoordImpl2(c *CCase, again bool) (obs CObs, obs2 *CObs, obs3 *CObs) {
	obs = CObs{Scales: []int64{}, Reqs: make([][]CReq, len(c.Probes))}
	for i := range obs.Reqs {
		obs.Reqs[i] = []CReq{}
	}
	lg := logrus.New()
	lg.SetOutput(io.Discard)
	cfg := &prom.ConfigInfo{ConfigHash: "cfg-hash", RawContent: []byte("global: {}"), ExtraConfig: &prom.ExtraConfig{}}
	mgr := &coordMgr{c: c, obs: &obs, cfgHash: cfg.ConfigHash}
	explore := map[uint64]*target.ScrapeStatus{}
	for _, s := range c.Explore {
		explore[s.Hash] = s.status()
	}
	active := coordActive(c)
	co := coordinator.NewCoordinator(coordOption(c), &coordRep{ms: []shard.Manager{mgr}},
		func() *prom.ConfigInfo { return cfg },
		func(h uint64) *target.ScrapeStatus { return explore[h] },
		func() map[uint64]*discovery.SDTargets { return active },
		prometheus.NewRegistry(), lg)
	func() {
		defer func() {
			if r := recover(); r != nil {
				obs.Crashed = true
			}
		}()
		_ = co.VerifRunOnce()
	}()
	if again && !obs.Crashed {
		o2 := CObs{Scales: []int64{}, Reqs: make([][]CReq, len(c.Probes))}
		for i := range o2.Reqs {
			o2.Reqs[i] = []CReq{}
		}
		mgr.obs = &o2
		mgr.calls = 0 // the script (which ChangeScale call fails) starts again with the cycle
		func() {
			defer func() {
				if r := recover(); r != nil {
					o2.Crashed = true
				}
			}()
			_ = co.VerifRunOnce()
		}()
		obs2 = &o2
		// third cycle, same Coordinator: the explorer has forgotten everything (all targets were removed
		// and discovered again, none probed yet) - an estimate of an earlier cycle must not be used
		if !o2.Crashed && len(c.Explore) > 0 {
			o3 := CObs{Scales: []int64{}, Reqs: make([][]CReq, len(c.Probes))}
			for i := range o3.Reqs {
				o3.Reqs[i] = []CReq{}
			}
			mgr.obs = &o3
			mgr.calls = 0
			for k := range explore {
				delete(explore, k)
			}
			func() {
				defer func() {
					if r := recover(); r != nil {
						o3.Crashed = true
					}
				}()
				_ = co.VerifRunOnce()
			}()
			obs3 = &o3
		}
	}
	return obs, obs2, obs3
}

// ---- line encoding (must match Kvass/Driver/Coord.lean) ----

func encSt(w *ints, s CSt) {
	w.add(int64(s.Hash), int64(s.Health), s.Series, s.Total, int64(s.State), int64(s.Times))
}
func encRt(w *ints, r CRt) {
	w.bool(r.Ok)
	w.add(r.Head, r.Proc, int64(r.Idle))
	w.bool(r.Eq)
}

func encCoord(id int, c *CCase, o *CObs) string {
	w := &ints{}
	w.add(int64(id))
	w.add(c.Opt.MaxHead, c.Opt.MaxProc, int64(c.Opt.MaxShard), int64(c.Opt.MinShard))
	w.bool(c.Opt.IdleOn)
	w.bool(c.Opt.DisAllev)
	w.add(int64(len(c.Active)))
	for _, h := range c.Active {
		w.add(int64(h))
	}
	w.add(int64(len(c.Explore)))
	for _, s := range c.Explore {
		encSt(w, s)
	}
	w.bool(c.ScaleErr1)
	w.add(int64(len(c.Probes)))
	for _, p := range c.Probes {
		w.bool(p.Ready)
		w.bool(p.StatusOk)
		w.add(int64(len(p.Status)))
		for _, s := range p.Status {
			encSt(w, s)
		}
		encRt(w, p.Rt1)
		w.bool(p.PushOk)
		encRt(w, p.Rt2)
		w.bool(p.PostOk)
	}
	w.bool(o.Crashed)
	w.add(int64(len(o.Scales)))
	w.add(o.Scales...)
	w.add(int64(len(o.Reqs)))
	for _, rs := range o.Reqs {
		w.add(int64(len(rs)))
		for _, r := range rs {
			w.add(int64(r.Kind))
			if r.Kind == 3 {
				w.add(int64(len(r.Body)))
				for _, b := range r.Body {
					w.add(int64(b.Hash), int64(b.State), b.Series)
				}
			}
		}
	}
	return w.String()
}

// ---- generator ----

var seriesDom = []int64{0, 1, 2, 3, 5, 8}
var timesDom = []uint64{0, 1, 2, 3, 4, 7}

func genSt(r *Rng, h uint64) CSt {
	s := CSt{Hash: h}
	s.Series = seriesDom[r.Intn(len(seriesDom))]
	s.Total = s.Series + r.PickI(0, 0, 2, 5, 20)
	switch x := r.Intn(10); {
	case x < 7:
		s.Health = 1
	case x < 9:
		s.Health = 2
	}
	if r.Chance(25) {
		s.State = 1
	}
	s.Times = timesDom[r.Intn(len(timesDom))]
	return s
}

func genCoordCase(r *Rng, big bool) *CCase {
	c := &CCase{}
	maxSh, maxTg := 4, 6
	if big {
		maxSh, maxTg = 6, 8
	}
	n := 1 + r.Intn(maxSh)
	c.Opt.MaxHead = r.PickI(0, 0, 6, 10, 16)
	c.Opt.MaxProc = r.PickI(10, 20, 40, 40)
	c.Opt.MaxShard = int32(n) + int32(r.PickI(-1, 0, 1, 3))
	if c.Opt.MaxShard < 1 {
		c.Opt.MaxShard = 1
	}
	c.Opt.MinShard = int32(r.PickI(0, 1, 1, 2, int64(n)))
	if c.Opt.MinShard > c.Opt.MaxShard && r.Chance(90) {
		c.Opt.MinShard = c.Opt.MaxShard
	}
	c.Opt.IdleOn = r.Chance(50)
	c.Opt.DisAllev = r.Chance(30)
	nt := r.Intn(maxTg + 1)
	univ := []uint64{}
	for h := 1; h <= nt; h++ {
		univ = append(univ, uint64(h))
	}
	for _, h := range univ {
		if r.Chance(85) {
			c.Active = append(c.Active, h)
		}
	}
	if c.Active == nil {
		c.Active = []uint64{}
	}
	c.Explore = []CSt{}
	for _, h := range univ {
		if r.Chance(80) {
			s := genSt(r, h)
			s.State = 0
			s.Times = 0
			if r.Chance(70) {
				s.Health = 1
			}
			c.Explore = append(c.Explore, s)
		}
	}
	c.ScaleErr1 = r.Chance(5)
	// placement style: mostly each target on at most one shard, sometimes duplicates / moves
	for i := 0; i < n; i++ {
		p := CProbe{Ready: r.Chance(88), StatusOk: r.Chance(92), PushOk: r.Chance(70), PostOk: r.Chance(92), Status: []CSt{}}
		p.Rt1.Ok = r.Chance(93)
		p.Rt1.Eq = r.Chance(88)
		p.Rt2.Ok = r.Chance(85)
		p.Rt2.Eq = r.Chance(70)
		c.Probes = append(c.Probes, p)
	}
	for _, h := range univ {
		k := r.Intn(10)
		switch {
		case k < 3: // unscraped
		case k < 8: // one copy
			i := r.Intn(n)
			c.Probes[i].Status = append(c.Probes[i].Status, genSt(r, h))
		default: // two copies: a move in progress or a duplicate
			i := r.Intn(n)
			j := r.Intn(n)
			a := genSt(r, h)
			b := genSt(r, h)
			if r.Chance(60) {
				a.State, b.State = 1, 0
			}
			c.Probes[i].Status = append(c.Probes[i].Status, a)
			if j != i {
				c.Probes[j].Status = append(c.Probes[j].Status, b)
			}
		}
	}
	// a move back: the overloaded holder of a target finds room on a shard that still holds the same
	// target from an earlier move (in transfer, or a duplicate)
	moveBack := n >= 2 && len(c.Active) >= 2 && r.Chance(10)
	mbA, mbB := 0, 0
	if moveBack {
		k := r.Intn(len(c.Active))
		h, g := c.Active[k], c.Active[(k+1)%len(c.Active)]
		mbA = r.Intn(n)
		mbB = (mbA + 1 + r.Intn(n-1)) % n
		for i := range c.Probes {
			st := []CSt{}
			for _, s := range c.Probes[i].Status {
				if s.Hash != h && s.Hash != g {
					st = append(st, s)
				}
			}
			c.Probes[i].Status = st
		}
		mk := func(x uint64) CSt {
			return CSt{Hash: x, Health: 1, Series: 6, Total: 6, Times: uint64(3 + r.Intn(3))}
		}
		c.Probes[mbA].Status = append(c.Probes[mbA].Status, mk(h), mk(g))
		old := mk(h)
		old.State = r.Intn(2)
		old.Times = uint64(r.Intn(6))
		c.Probes[mbB].Status = append(c.Probes[mbB].Status, old)
		for _, i := range []int{mbA, mbB} {
			c.Probes[i].Ready, c.Probes[i].StatusOk, c.Probes[i].Rt1.Ok, c.Probes[i].Rt1.Eq, c.Probes[i].PostOk = true, true, true, true, true
		}
		c.Opt.DisAllev = false
		c.Opt.MaxHead, c.Opt.MaxProc = 0, 10
	}
	for i := range c.Probes {
		p := &c.Probes[i]
		var sumS, sumT int64
		for _, s := range p.Status {
			sumS += s.Series
			sumT += s.Total
		}
		mk := func(rt *CRt) {
			rt.Head = sumS + r.PickI(0, 0, 0, 1, 4, 9, 15)
			rt.Proc = sumT
			if len(p.Status) == 0 {
				rt.Idle = 1 + r.Intn(2)
			}
		}
		mk(&p.Rt1)
		mk(&p.Rt2)
		p.Rt2.Idle = p.Rt1.Idle
	}
	if moveBack {
		c.Probes[mbA].Rt1.Proc = 12 + r.PickI(0, 3)
		c.Probes[mbB].Rt1.Proc = r.PickI(0, 1, 3)
	}
	// several relief moves onto one destination within one cycle, total series well above kept series:
	// the destination's running process load decides whether the second move still fits
	if !moveBack && n >= 2 && r.Chance(6) {
		c.Opt.MaxHead, c.Opt.MaxProc, c.Opt.DisAllev = 0, 40, false
		a := r.Intn(n)
		b := (a + 1 + r.Intn(n-1)) % n
		c.Active, c.Explore = []uint64{}, []CSt{}
		for i := range c.Probes {
			c.Probes[i].Status = []CSt{}
		}
		for h := uint64(1); h <= 5; h++ {
			c.Active = append(c.Active, h)
			c.Probes[a].Status = append(c.Probes[a].Status, CSt{Hash: h, Health: 1, Series: 2, Total: 12, Times: uint64(3 + r.Intn(3))})
		}
		for _, i := range []int{a, b} {
			c.Probes[i].Ready, c.Probes[i].StatusOk, c.Probes[i].Rt1.Ok, c.Probes[i].Rt1.Eq, c.Probes[i].PostOk = true, true, true, true, true
		}
		for i := range c.Probes {
			c.Probes[i].Rt1 = CRt{Ok: c.Probes[i].Rt1.Ok, Eq: c.Probes[i].Rt1.Eq, Head: 0, Proc: 39, Idle: 0}
		}
		c.Probes[a].Rt1.Head, c.Probes[a].Rt1.Proc = 10, 60
		c.Probes[b].Rt1.Head, c.Probes[b].Rt1.Proc, c.Probes[b].Rt1.Idle = 0, r.PickI(18, 20, 22), 1
	}
	// an assigned target that alone exceeds a limit on a shard that is over the relief threshold, everything
	// else settled: relief must give up on it, and no shard may be added because of it
	if !moveBack && n >= 2 && r.Chance(6) {
		c.Opt.DisAllev, c.Opt.IdleOn = false, r.Chance(30)
		headCase := r.Chance(50)
		if headCase {
			c.Opt.MaxHead, c.Opt.MaxProc = 20, 1000
		} else {
			c.Opt.MaxHead, c.Opt.MaxProc = 0, 40
		}
		c.Opt.MaxShard, c.Opt.MinShard = int32(n)+2, 1
		a := r.Intn(n)
		c.Active, c.Explore = []uint64{}, []CSt{}
		for i := range c.Probes {
			p := &c.Probes[i]
			p.Ready, p.StatusOk, p.Rt1.Ok, p.Rt1.Eq, p.PostOk = true, true, true, true, true
			p.Status = []CSt{}
			h := uint64(10 + i)
			c.Active = append(c.Active, h)
			p.Status = append(p.Status, CSt{Hash: h, Health: 1, Series: 3, Total: 4, Times: uint64(3 + r.Intn(3))})
			p.Rt1 = CRt{Ok: true, Eq: true, Head: 3, Proc: 4}
		}
		bigSt := CSt{Hash: 1, Health: 1, Series: 5, Total: 60, Times: uint64(3 + r.Intn(4))}
		if headCase {
			bigSt.Series, bigSt.Total = 30, 31
		}
		c.Active = append(c.Active, 1)
		pa := &c.Probes[a]
		pa.Status = append(pa.Status, bigSt)
		pa.Rt1.Head, pa.Rt1.Proc = 3+bigSt.Series, 4+bigSt.Total
		// a few movable targets next to it, so that relief has something to do before or after it meets it
		for k := 0; k < r.Intn(3); k++ {
			h := uint64(20 + k)
			c.Active = append(c.Active, h)
			pa.Status = append(pa.Status, CSt{Hash: h, Health: 1, Series: 2, Total: 3, Times: 4})
			pa.Rt1.Head += 2
			pa.Rt1.Proc += 3
		}
	}
	return c
}

func coordNontrivial(tags string) bool {
	return tags != ""
}

// signature of an implementation-side violation, used to match known findings
func coordSignature(prop, clause string, c *CCase, o *CObs) string {
	if prop == "C07" && clause == "noShrink" && coordZeroSizeUnscraped(c) {
		// the known zero-size defect (a healthy target with estimate 0 that finds no room asks for "(0,0)
		// more space", which runOnce reads as nothing needed) seen from C07: the count is lowered although a
		// shard is needed
		return "C07/noShrink/unscraped-zero-size"
	}
	return fmt.Sprintf("%s/%s", prop, clause)
}

// coordZeroSizeUnscraped: some discovered target that no shard reports has a good explorer estimate of
// size zero
func coordZeroSizeUnscraped(c *CCase) bool {
	reported := map[uint64]bool{}
	for _, p := range c.Probes {
		if p.Ready && p.StatusOk {
			for _, s := range p.Status {
				reported[s.Hash] = true
			}
		}
	}
	active := map[uint64]bool{}
	for _, h := range c.Active {
		active[h] = true
	}
	for _, e := range c.Explore {
		if active[e.Hash] && !reported[e.Hash] && e.Health == 1 && e.Series == 0 && e.Total == 0 {
			return true
		}
	}
	return false
}

func loadCoordCorpus(dir string) []*CCase {
	var cs []*CCase
	files, _ := filepath.Glob(filepath.Join(dir, "*.json"))
	sort.Strings(files)
	for _, f := range files {
		data, err := os.ReadFile(f)
		if err != nil {
			continue
		}
		var wrap struct {
			Case *CCase `json:"case"`
		}
		if json.Unmarshal(data, &wrap) == nil && wrap.Case != nil && len(wrap.Case.Probes) > 0 {
			cs = append(cs, wrap.Case)
			continue
		}
		c := &CCase{}
		if json.Unmarshal(data, c) == nil && len(c.Probes) > 0 {
			cs = append(cs, c)
		}
	}
	return cs
}

func runCoord(a Args) *Result {
	res := newResult("coord", a.seed, a.tier)
	res.Rule = "random scripted cycles over small colliding value domains (series {0,1,2,3,5,8}, limits {0,6,10,16}/{10,20,40}, scrape counts {0..4,7}); " +
		"each case is run several times on the real Coordinator (map order / random pick vary); a case is distinct by its encoded line and " +
		"non-trivial when the matched model run took at least one of: gc delete, first assignment, relief, scale-down move, scale change, POST"
	rng := NewRng(a.seed)
	n, runs, big := 1500, 3, false
	if a.tier == "thorough" {
		n, runs, big = 30000, 8, true
	}
	if a.n > 0 {
		n = a.n
	}
	var cases []*CCase
	if a.replay != "" {
		cases = loadCoordCorpus(filepath.Dir(a.replay))
		cases = nil
		data, err := os.ReadFile(a.replay)
		if err == nil {
			var wrap struct {
				Case *CCase `json:"case"`
			}
			if json.Unmarshal(data, &wrap) == nil && wrap.Case != nil {
				cases = append(cases, wrap.Case)
			}
		}
		runs = 20
	} else {
		if a.corpus != "" {
			cases = append(cases, loadCoordCorpus(a.corpus)...)
			res.Dist["corpus_cases"] = len(cases)
		}
		for i := 0; i < n; i++ {
			cases = append(cases, genCoordCase(rng.Fork(), big && i%4 == 0))
		}
	}

	type item struct {
		c       *CCase
		o       CObs
		emptied bool // third cycle: the explorer has forgotten its estimates
	}
	var items []item
	var lines []string
	seen := map[string]bool{}
	for _, c := range cases {
		outs := map[string]bool{}
		for k := 0; k < runs; k++ {
			o1, o2, o3 := runCoordImpl2(c, true)
			both := []CObs{o1}
			if o2 != nil {
				both = append(both, *o2)
				res.count("second_cycle_on_same_coordinator")
			}
			if o3 != nil {
				c3 := *c
				c3.Explore = []CSt{}
				o := *o3
				line := encCoord(0, &c3, &o)
				if !seen[line] {
					seen[line] = true
					res.count("third_cycle_explorer_forgot")
					items = append(items, item{&c3, o, true})
					lines = append(lines, encCoord(len(items)-1, &c3, &o))
				}
			}
			for bi := range both {
				o := both[bi]
				line := encCoord(0, c, &o)
				if outs[line] {
					continue
				}
				outs[line] = true
				if seen[line] {
					continue
				}
				seen[line] = true
				if bi == 1 {
					res.count("second_cycle_differs_from_first")
				}
				items = append(items, item{c, o, false})
				lines = append(lines, encCoord(len(items)-1, c, &o))
			}
		}
		res.count(fmt.Sprintf("outcomes_per_case_%d", len(outs)))
		res.count(fmt.Sprintf("shards_%d", len(c.Probes)))
	}
	res.Evaluations = len(cases) * runs
	answers, err := runDriver(a.driver, "coord", lines)
	if err != nil {
		res.Notes = append(res.Notes, "driver failure: "+err.Error())
		res.Mismatch = append(res.Mismatch, Violation{Property: "*", Clause: "driver", Signature: "driver-failure", What: err.Error()})
		return res
	}
	nontrivial := map[string]bool{}
	for i, ans := range answers {
		it := items[i]
		if !strings.HasPrefix(ans, "case ") {
			res.Mismatch = append(res.Mismatch, Violation{Property: "*", Clause: "bad-op", Signature: "bad-op", What: ans, Case: it.c, Line: lines[i]})
			continue
		}
		matched := fieldsAfter(ans, "matched", "impl", "model", "tags")
		impl := fieldsAfter(ans, "impl", "model", "tags")
		model := fieldsAfter(ans, "model", "tags")
		tags := ""
		if idx := strings.Index(ans, " tags "); idx >= 0 {
			tags = strings.TrimSpace(ans[idx+6:])
		}
		for _, t := range strings.Split(tags, ",") {
			if t != "" {
				res.count("tag_" + t)
			}
		}
		if coordNontrivial(tags) {
			nontrivial[lines[i][strings.Index(lines[i], " ")+1:]] = true
		}
		res.Traces++
		full := map[string]interface{}{"case": it.c, "observed": it.o}
		if i < 3 {
			res.addSample(full)
		}
		if it.emptied && a.wants("C20") {
			bad := false
			for _, v := range matched {
				if v != "1" {
					bad = true
				}
			}
			if bad {
				res.ImplViol = capViol(res.ImplViol, Violation{Property: "C20", Clause: "staleEstimate", Signature: "C20/staleEstimate",
					What: "in a later cycle of the same coordinator the explorer has no estimate for any target (all were removed and discovered again, none probed yet), yet the cycle is not the one of a coordinator that sees no estimate: an estimate of an earlier cycle was used for a first assignment", Case: full, Line: lines[i]}, 2)
			}
		}
		for p, v := range matched {
			if v != "1" && a.wants(p) {
				res.Mismatch = capViol(res.Mismatch, Violation{Property: p, Clause: "correspondence", Signature: "coord/nomatch/" + p,
					What: "no schedule makes Coord.cycle agree with the real coordinator on the observables of " + p, Case: full, Line: lines[i]}, 3)
			}
		}
		for p, v := range impl {
			if v != "ok" && a.wants(p) {
				res.ImplViol = capViol(res.ImplViol, Violation{Property: p, Clause: v, Signature: coordSignature(p, v, it.c, &it.o),
					What: fmt.Sprintf("Spec.%s clause %s false on the outcome of the real coordinator", p, v), Case: full, Line: lines[i]}, 3)
			}
		}
		for p, v := range model {
			if v != "ok" && a.wants(p) {
				res.ModelViol = capViol(res.ModelViol, Violation{Property: p, Clause: v, Signature: coordSignature(p, v, it.c, &it.o),
					What: fmt.Sprintf("Spec.%s clause %s false on a model outcome", p, v), Case: full, Line: lines[i]}, 3)
			}
		}
	}
	res.Distinct = len(nontrivial)
	return res
}
