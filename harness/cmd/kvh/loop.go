package main

// Engine "loop" (C03, C06): the real Coordinator in a closed loop with real sidecars
// (TargetsManager + Service + Proxy each, own store directory), a simulated StatefulSet and
// simulated Prometheus scrapes; faults are injected at the harness-owned boundaries.
// The whole history is replayed on Loop.step by the Lean driver.

import (
	"bytes"
	"encoding/json"
	"fmt"
	"net/http/httptest"
	"os"
	"sort"
	"strings"
	"sync"
	"time"

	"github.com/prometheus/client_golang/prometheus"
	"github.com/prometheus/prometheus/model/labels"

	"tkestack.io/kvass/pkg/coordinator"
	"tkestack.io/kvass/pkg/discovery"
	"tkestack.io/kvass/pkg/prom"
	"tkestack.io/kvass/pkg/shard"
	"tkestack.io/kvass/pkg/sidecar"
	"tkestack.io/kvass/pkg/target"
)

type WTarget struct {
	Hash     uint64 `json:"h"`
	Series   int64  `json:"series"`
	Total    int64  `json:"total"`
	Healthy  bool   `json:"healthy"`  // the explorer's probe succeeded
	ScrapeOk bool   `json:"scrapeOk"` // scrapes by a shard succeed
}
type WFault struct {
	NotReady   bool `json:"notReady,omitempty"`
	StatusFail bool `json:"statusFail,omitempty"`
	RtFail     bool `json:"rtFail,omitempty"`
	OutOfSync  bool `json:"outOfSync,omitempty"`
	PostLost   bool `json:"postLost,omitempty"`
	PushOk     bool `json:"pushOk,omitempty"` // with OutOfSync: the push of the raw configuration reaches the real sidecar and succeeds
}

func (f WFault) any() bool {
	return f.NotReady || f.StatusFail || f.RtFail || f.OutOfSync || f.PostLost
}

type WOp struct {
	Kind      string   `json:"kind"` // cycle | scrape | round | restart | scale | discover | update | grow
	Faults    []WFault `json:"faults,omitempty"`
	ScaleFail bool     `json:"scaleFail,omitempty"`
	Shard     int      `json:"shard,omitempty"`
	Hash      uint64   `json:"h,omitempty"`
	N         int      `json:"n,omitempty"`
	Active    []uint64 `json:"active,omitempty"`
	Req       []STgt   `json:"req,omitempty"`
	Series    int64    `json:"series,omitempty"`
	Total     int64    `json:"total,omitempty"`
}
type WCase struct {
	Opt      COpt      `json:"opt"`
	MaxIdle  int       `json:"maxIdle"`
	Replicas int       `json:"replicas"`
	Targets  []WTarget `json:"targets"`
	Active   []uint64  `json:"active"`
	Ops      []WOp     `json:"ops"`
	Tail     int       `json:"tail"` // fault-free macro cycles (cycle + scrape rounds on every shard) appended
	// scrape rounds per shard in tail cycle k: TailRounds[(k*replicas+shard) % len] (empty = 3 everywhere);
	// every shard scrapes at least once per cycle
	TailRounds []int `json:"tailRounds,omitempty"`
}

type loopRig struct {
	rig   *sidecarRig
	dir   string
	clock int64
}

type loopWorld struct {
	c        *WCase
	work     string
	base     time.Time
	rigs     []*loopRig
	replicas int
	truth    map[uint64]*WTarget
	active   []uint64
	cur      *loopRig
	mu       sync.Mutex
	// per cycle
	faults    []WFault
	scaleFail bool
	obs       *CObs
	cfgHash   string
	err       error
	co        *coordinator.Coordinator
	cfg       *prom.ConfigInfo
}

func (w *loopWorld) timeNow() time.Time {
	if w.cur == nil {
		return w.base
	}
	return w.base.Add(time.Duration(w.cur.clock) * time.Second)
}

func (w *loopWorld) startRig(i int) error {
	if i < len(w.rigs) {
		lr := w.rigs[i]
		lr.clock++ // restart is one tick
		rig, err := newSidecarRig(lr.dir, 0, &lr.clock, w.base)
		sidecar.VerifSetTimeNow(w.timeNow)
		if err != nil {
			return err
		}
		lr.rig = rig
		return nil
	}
	dir, err := os.MkdirTemp(w.work, fmt.Sprintf("shard%d-", i))
	if err != nil {
		return err
	}
	lr := &loopRig{dir: dir}
	rig, err := newSidecarRig(dir, 0, &lr.clock, w.base)
	sidecar.VerifSetTimeNow(w.timeNow)
	if err != nil {
		return err
	}
	lr.rig = rig
	w.rigs = append(w.rigs, lr)
	return nil
}

func (w *loopWorld) resize(n int) error {
	for i := w.replicas; i < n; i++ {
		if err := w.startRig(i); err != nil {
			return err
		}
	}
	w.replicas = n
	return nil
}

// the coordinator talks to its shards from several goroutines; the sidecars' clock is one global hook
func (w *loopWorld) on(lr *loopRig, f func()) {
	w.mu.Lock()
	defer w.mu.Unlock()
	w.cur = lr
	f()
	w.cur = nil
}

// ---- shard.Manager ----

func (w *loopWorld) faultAt(i int) WFault {
	if i < len(w.faults) {
		return w.faults[i]
	}
	return WFault{}
}

func (w *loopWorld) Shards() ([]*shard.Shard, error) {
	ret := []*shard.Shard{}
	for i := 0; i < w.replicas; i++ {
		idx := i
		lr := w.rigs[i]
		f := w.faultAt(i)
		pushed := false
		sd := shard.NewShard(fmt.Sprintf("shard-%d", i), fmt.Sprintf("http://s%d", i), !f.NotReady, quietLog())
		sd.APIGet = func(url string, ret interface{}) error {
			switch {
			case strings.HasSuffix(url, "/api/v1/shard/targets/status/"):
				w.obs.Reqs[idx] = append(w.obs.Reqs[idx], CReq{Kind: 0})
				if f.StatusFail {
					return fmt.Errorf("injected status error")
				}
				var err error
				w.on(lr, func() { err = lr.rig.get("/api/v1/shard/targets/status/", ret) })
				return err
			case strings.HasSuffix(url, "/api/v1/shard/runtimeinfo/"):
				w.obs.Reqs[idx] = append(w.obs.Reqs[idx], CReq{Kind: 1})
				if f.RtFail {
					return fmt.Errorf("injected runtime error")
				}
				info := shard.RuntimeInfo{}
				var err error
				w.on(lr, func() { err = lr.rig.get("/api/v1/shard/runtimeinfo/", &info) })
				if err != nil {
					return err
				}
				if info.ConfigHash != w.cfgHash {
					w.err = fmt.Errorf("sidecar config hash %q differs from the coordinator's %q", info.ConfigHash, w.cfgHash)
				}
				if f.OutOfSync && !pushed {
					info.ConfigHash = "stale"
				}
				if info.IdleStartAt != nil {
					// sidecar clock ticks -> the coordinator's wall clock: one tick = one hour
					k := int64(info.IdleStartAt.Sub(w.base) / time.Second)
					t := time.Now().Add(-time.Duration(lr.clock+1-k) * time.Hour)
					info.IdleStartAt = &t
				}
				data, _ := json.Marshal(&info)
				return json.Unmarshal(data, ret)
			}
			return fmt.Errorf("unexpected GET %s", url)
		}
		sd.APIPost = func(url string, req interface{}, ret interface{}) error {
			switch {
			case strings.HasSuffix(url, "/api/v1/status/config"):
				w.obs.Reqs[idx] = append(w.obs.Reqs[idx], CReq{Kind: 2})
				if !f.PushOk {
					return fmt.Errorf("injected push error")
				}
				// the push reaches the real sidecar service, which reloads the raw configuration
				data, _ := json.Marshal(req)
				code := 0
				w.on(lr, func() {
					path := "/api/v1/status/config"
					for hop := 0; hop < 3; hop++ {
						rec := httptest.NewRecorder()
						lr.rig.svc.ServeHTTP(rec, httptest.NewRequest("POST", path, bytes.NewReader(data)))
						code = rec.Code
						if (code == 307 || code == 308) && rec.Header().Get("Location") != "" {
							path = rec.Header().Get("Location")
							continue
						}
						break
					}
				})
				if code != 200 {
					return fmt.Errorf("config push answered with status %d", code)
				}
				_ = lr.rig.installTransports()
				pushed = true
				return nil
			case strings.HasSuffix(url, "/api/v1/shard/targets/"):
				data, _ := json.Marshal(req)
				r := shard.UpdateTargetsRequest{}
				if err := json.Unmarshal(data, &r); err != nil {
					return err
				}
				body := []CBodyEnt{}
				for _, ts := range r.Targets {
					for _, t := range ts {
						body = append(body, CBodyEnt{Hash: t.Hash, State: stateIdx(t.TargetState), Series: t.Series})
					}
				}
				sort.Slice(body, func(a, b int) bool { return body[a].Hash < body[b].Hash })
				w.obs.Reqs[idx] = append(w.obs.Reqs[idx], CReq{Kind: 3, Body: body})
				if f.PostLost {
					return fmt.Errorf("injected post error")
				}
				var code int
				var msg string
				w.on(lr, func() {
					lr.clock++
					rec := httptest.NewRecorder()
					lr.rig.svc.ServeHTTP(rec, httptest.NewRequest("POST", "/api/v1/shard/targets/", bytes.NewReader(data)))
					code, msg = rec.Code, rec.Body.String()
				})
				if code != 200 {
					return fmt.Errorf("POST targets: %d %s", code, msg)
				}
				return nil
			case strings.HasSuffix(url, "/api/v1/status/extra_config"):
				w.obs.Reqs[idx] = append(w.obs.Reqs[idx], CReq{Kind: 4})
				return nil
			}
			return fmt.Errorf("unexpected POST %s", url)
		}
		ret = append(ret, sd)
	}
	return ret, nil
}

func (w *loopWorld) ChangeScale(k int32) error {
	w.obs.Scales = append(w.obs.Scales, int64(k))
	if w.scaleFail {
		return fmt.Errorf("injected scale error")
	}
	if k < 0 {
		k = 0
	}
	if err := w.resize(int(k)); err != nil {
		w.err = err
	}
	return nil
}

func (w *loopWorld) explore(h uint64) *target.ScrapeStatus {
	t := w.truth[h]
	if t == nil {
		return nil
	}
	st := target.NewScrapeStatus(t.Series, t.Total)
	if t.Healthy {
		st.Health = healthOf(1)
	} else {
		st.Health = healthOf(2)
	}
	return st
}

func (w *loopWorld) activeMap() map[uint64]*discovery.SDTargets {
	m := map[uint64]*discovery.SDTargets{}
	for _, h := range w.active {
		m[h] = &discovery.SDTargets{Job: fmt.Sprintf("job%d", h%2), ShardTarget: &target.Target{
			Hash:   h,
			Labels: labels.FromStrings("__address__", fmt.Sprintf("10.1.0.%d:80", h), "__scheme__", "http", "__metrics_path__", "/metrics", "instance", fmt.Sprint(h)),
		}}
	}
	return m
}

func (w *loopWorld) cycle(faults []WFault, scaleFail bool) CObs {
	obs := CObs{Scales: []int64{}, Reqs: make([][]CReq, w.replicas)}
	for i := range obs.Reqs {
		obs.Reqs[i] = []CReq{}
	}
	w.obs, w.faults, w.scaleFail = &obs, faults, scaleFail
	cfg := &prom.ConfigInfo{ConfigHash: w.cfgHash, RawContent: []byte(sidecarCfg), ExtraConfig: &prom.ExtraConfig{}}
	opt := coordOption(&CCase{Opt: w.c.Opt})
	if w.c.Opt.IdleOn {
		opt.MaxIdleTime = time.Duration(w.c.MaxIdle)*time.Hour + 30*time.Minute
	}
	// one long-lived Coordinator per world, as in a deployment: state it keeps from cycle to cycle
	// (there is none on the pinned tree) takes part in the history
	w.cfg = cfg
	if w.co == nil {
		w.co = coordinator.NewCoordinator(opt, &coordRep{ms: []shard.Manager{w}},
			func() *prom.ConfigInfo { return w.cfg }, w.explore,
			func() map[uint64]*discovery.SDTargets { return w.activeMap() },
			prometheus.NewRegistry(), quietLog())
	}
	co := w.co
	func() {
		defer func() {
			if r := recover(); r != nil {
				obs.Crashed = true
			}
		}()
		_ = co.VerifRunOnce()
	}()
	return obs
}

func (w *loopWorld) observe() (int, []SObs, error) {
	out := []SObs{}
	for i := 0; i < w.replicas; i++ {
		var o SObs
		var err error
		w.on(w.rigs[i], func() { o, err = w.rigs[i].rig.observe() })
		if err != nil {
			return 0, nil, err
		}
		out = append(out, o)
	}
	return w.replicas, out, nil
}

func encWorldObs(w *ints, n int, obs []SObs) {
	w.add(int64(n), int64(len(obs)))
	for _, o := range obs {
		encSObs(w, o)
	}
}

func encCObs(w *ints, o *CObs) {
	w.bool(o.Crashed)
	w.add(int64(len(o.Scales)))
	w.add(o.Scales...)
	w.add(int64(len(o.Reqs)))
	for _, rs := range o.Reqs {
		w.add(int64(len(rs)))
		for _, r := range rs {
			w.add(int64(r.Kind))
			if r.Kind == 3 {
				w.add(int64(len(r.Body)))
				for _, b := range r.Body {
					w.add(int64(b.Hash), int64(b.State), b.Series)
				}
			}
		}
	}
}

func (w *loopWorld) encDiscover(x *ints) {
	x.add(int64(len(w.active)))
	for _, h := range w.active {
		x.add(int64(h))
	}
	ex := []CSt{}
	for _, h := range w.active {
		if t := w.truth[h]; t != nil {
			s := CSt{Hash: h, Series: t.Series, Total: t.Total, Health: 2}
			if t.Healthy {
				s.Health = 1
			}
			ex = append(ex, s)
		}
	}
	x.add(int64(len(ex)))
	for _, s := range ex {
		encSt(x, s)
	}
}

// what the harness itself sees of the running sidecars: hash -> state per shard
type loopSnap struct {
	Replicas int
	Assign   []map[uint64]int
	Times    []map[uint64]uint64 // scrape counter per held target
}

func snapOf(n int, obs []SObs) loopSnap {
	s := loopSnap{Replicas: n}
	for _, o := range obs {
		m := map[uint64]int{}
		tm := map[uint64]uint64{}
		for _, e := range o.Status {
			m[e.Hash] = e.State
			tm[e.Hash] = e.Times
		}
		s.Assign = append(s.Assign, m)
		s.Times = append(s.Times, tm)
	}
	return s
}

func sameSnap(a, b loopSnap) bool {
	if a.Replicas != b.Replicas || len(a.Assign) != len(b.Assign) {
		return false
	}
	for i := range a.Assign {
		if len(a.Assign[i]) != len(b.Assign[i]) {
			return false
		}
		for h, s := range a.Assign[i] {
			if t, ok := b.Assign[i][h]; !ok || t != s {
				return false
			}
		}
	}
	return true
}

type loopRun struct {
	Line         string
	NOps         int
	CycleOps     []int // op index of every cycle
	TailFrom     int   // index into CycleOps of the first tail cycle
	Snaps        []loopSnap
	SnapBefore   []loopSnap // snapshot before every cycle
	SnapAfter    []loopSnap // snapshot after every cycle (before the scrapes that follow)
	ZeroUnplaced []bool     // per cycle: a healthy discovered zero-size target is on no shard after the cycle
	FinalObs     []SObs
	Err          error
	Tags         map[string]bool
	KeepViol     []string // "never unscraped" monitor: one line per op after which a held discovered target is held by nobody
	KeepChecked  int      // (op, target) pairs the monitor looked at
	HandViol     []string // hand-over rule on the sidecars' own counters (Loop.step_handover_f)
	HandChecked  int      // removals the monitor looked at
}

// runLoopCase executes the case on real components and returns the line for the driver
func runLoopCase(c *WCase, work string) *loopRun {
	run := &loopRun{Tags: map[string]bool{}}
	dir, err := os.MkdirTemp(work, "loop")
	if err != nil {
		run.Err = err
		return run
	}
	defer os.RemoveAll(dir)
	w := &loopWorld{c: c, work: dir, base: time.Unix(1700000000, 0).UTC(), truth: map[uint64]*WTarget{}, cfgHash: ""}
	for i := range c.Targets {
		t := c.Targets[i]
		w.truth[t.Hash] = &t
	}
	w.active = append([]uint64{}, c.Active...)
	if err := w.resize(c.Replicas); err != nil {
		run.Err = err
		return run
	}
	w.cfgHash = w.rigs[0].rig.cfg.ConfigInfo().ConfigHash
	x := &ints{}
	x.add(c.Opt.MaxHead, c.Opt.MaxProc, int64(c.Opt.MaxShard), int64(c.Opt.MinShard))
	x.bool(c.Opt.IdleOn)
	x.bool(c.Opt.DisAllev)
	x.add(int64(c.MaxIdle), 0, int64(c.Replicas))
	w.encDiscover(x)
	n, obs, err := w.observe()
	if err != nil {
		run.Err = err
		return run
	}
	encWorldObs(x, n, obs)
	ops := &ints{}
	nops := 0
	prev := snapOf(n, obs)
	heldIn := func(s loopSnap, h uint64) int {
		for i, m := range s.Assign {
			if _, ok := m[h]; ok {
				return i
			}
		}
		return -1
	}
	// kind != "": the operation is one of those of Loop.benign (cycle with any faults, scrape, restart,
	// discovery change); Loop.step_keep_f / run_keep then say that a discovered target held by a running
	// sidecar before is held by a running sidecar after (while the size is within max-shard)
	emit := func(kind string, f func(o *ints)) bool {
		f(ops)
		n, obs, err := w.observe()
		if err != nil {
			run.Err = err
			return false
		}
		encWorldObs(ops, n, obs)
		run.FinalObs = obs
		after := snapOf(n, obs)
		if kind != "" && int32(prev.Replicas) <= c.Opt.MaxShard {
			for _, h := range w.active {
				if i := heldIn(prev, h); i >= 0 {
					run.KeepChecked++
					if heldIn(after, h) < 0 && len(run.KeepViol) < 4 {
						run.KeepViol = append(run.KeepViol, fmt.Sprintf("op %d (%s): target %d, held by shard %d of %d before, is held by none of the %d running shards after",
							nops, kind, h, i, prev.Replicas, after.Replicas))
					}
				}
			}
		}
		if kind == "cycle" && int32(prev.Replicas) <= c.Opt.MaxShard {
			for i := 0; i < len(prev.Assign) && i < len(after.Assign); i++ {
				for _, h := range w.active {
					if _, was := prev.Assign[i][h]; !was {
						continue
					}
					if _, is := after.Assign[i][h]; is {
						continue
					}
					run.HandChecked++
					partner := -1
					for j := 0; j < len(prev.Assign) && j < len(after.Assign); j++ {
						if j == i {
							continue
						}
						if _, wasj := prev.Assign[j][h]; !wasj || prev.Times[j][h] < 3 {
							continue
						}
						if _, isj := after.Assign[j][h]; isj {
							partner = j
						}
					}
					if (prev.Times[i][h] < 3 || partner < 0) && len(run.HandViol) < 4 {
						run.HandViol = append(run.HandViol, fmt.Sprintf("op %d (cycle): shard %d gave up target %d after %d scrapes; partner that had scraped it 3 times and still holds it: %d",
							nops, i, h, prev.Times[i][h], partner))
					}
				}
			}
		}
		prev = after
		nops++
		return true
	}
	scrape := func(i int, h uint64) bool {
		if i >= w.replicas {
			return true
		}
		t := w.truth[h]
		ok, sc, to := false, int64(0), int64(0)
		if t != nil && t.ScrapeOk {
			ok, sc, to = true, t.Series, t.Total
		}
		lr := w.rigs[i]
		lr.clock++
		w.on(lr, func() { lr.rig.scrape(h, int(h%2), ok, sc, to) })
		return emit("scrape", func(o *ints) {
			o.add(1, int64(i), int64(h))
			o.bool(ok)
			o.add(sc, to)
		})
	}
	round := func(i int) bool {
		if i >= w.replicas {
			return true
		}
		var o SObs
		w.on(w.rigs[i], func() { o, _ = w.rigs[i].rig.observe() })
		for _, e := range o.Status {
			if !scrape(i, e.Hash) {
				return false
			}
		}
		return true
	}
	cycle := func(faults []WFault, scaleFail bool) bool {
		nb, ob, _ := w.observe()
		run.SnapBefore = append(run.SnapBefore, snapOf(nb, ob))
		res := w.cycle(faults, scaleFail)
		run.CycleOps = append(run.CycleOps, nops)
		okk := emit("cycle", func(o *ints) {
			o.add(0, int64(len(faults)))
			for _, f := range faults {
				o.bool(f.NotReady)
				o.bool(f.StatusFail)
				o.bool(f.RtFail)
				o.bool(f.OutOfSync)
				o.bool(f.PostLost)
				o.bool(f.PushOk)
			}
			o.bool(scaleFail)
			encCObs(o, &res)
		})
		na, oa, _ := w.observe()
		sa := snapOf(na, oa)
		run.SnapAfter = append(run.SnapAfter, sa)
		zero := false
		for _, h := range w.active {
			t := w.truth[h]
			if t == nil || !t.Healthy || t.Series != 0 || t.Total != 0 {
				continue
			}
			held := false
			for _, m := range sa.Assign {
				if _, ok := m[h]; ok {
					held = true
				}
			}
			if !held {
				zero = true
			}
		}
		run.ZeroUnplaced = append(run.ZeroUnplaced, zero)
		if res.Crashed {
			run.Tags["crash"] = true
		}
		for _, f := range faults {
			if f.OutOfSync && f.PushOk {
				run.Tags["configPushAccepted"] = true
			}
		}
		return okk
	}
	for _, op := range c.Ops {
		if w.err != nil || run.Err != nil {
			break
		}
		switch op.Kind {
		case "cycle":
			if !cycle(op.Faults, op.ScaleFail) {
				break
			}
		case "scrape":
			scrape(op.Shard, op.Hash)
		case "round":
			round(op.Shard)
		case "restart":
			if op.Shard < w.replicas {
				if err := w.startRig(op.Shard); err != nil {
					run.Err = err
					break
				}
				emit("restart", func(o *ints) { o.add(2, int64(op.Shard)) })
				run.Tags["restart"] = true
			}
		case "scale":
			if err := w.resize(op.N); err != nil {
				run.Err = err
				break
			}
			emit("", func(o *ints) { o.add(3, int64(op.N)) })
			run.Tags["extScale"] = true
		case "discover":
			w.active = append([]uint64{}, op.Active...)
			emit("discover", func(o *ints) { o.add(4); w.encDiscover(o) })
			run.Tags["discover"] = true
		case "grow":
			if t := w.truth[op.Hash]; t != nil {
				t.Series, t.Total = op.Series, op.Total
				emit("discover", func(o *ints) { o.add(4); w.encDiscover(o) })
				run.Tags["grow"] = true
			}
		case "update":
			if op.Shard < w.replicas {
				lr := w.rigs[op.Shard]
				lr.clock++
				var err error
				w.on(lr, func() { err = lr.rig.update(op.Req) })
				if err != nil {
					run.Err = err
					break
				}
				emit("", func(o *ints) {
					o.add(5, int64(op.Shard), int64(len(op.Req)))
					for _, t := range op.Req {
						o.add(int64(t.Hash), t.Series, t.Total, int64(t.State), int64(t.Job))
					}
				})
			}
		}
	}
	run.TailFrom = len(run.CycleOps)
	for k := 0; k < c.Tail && w.err == nil && run.Err == nil; k++ {
		if !cycle(nil, false) {
			break
		}
		for i := 0; i < w.replicas; i++ {
			nr := 3
			if len(c.TailRounds) > 0 {
				nr = c.TailRounds[(k*w.replicas+i)%len(c.TailRounds)]
			}
			for r := 0; r < nr; r++ {
				round(i)
			}
		}
	}
	if w.err != nil && run.Err == nil {
		run.Err = w.err
	}
	x.add(int64(nops))
	run.NOps = nops
	run.Line = x.String() + " " + ops.String()
	return run
}

// ---- generator ----

var loopSeries = []int64{5, 10, 10, 20, 20, 30, 40, 50, 60}

func genLoopCase(r *Rng, faulty bool, tail int) *WCase {
	c := &WCase{Tail: tail}
	c.Opt.MaxProc = r.PickI(100, 100, 150, 1000)
	if r.Chance(60) {
		c.Opt.MaxHead = r.PickI(100, 100, 80)
	}
	c.Opt.DisAllev = r.Chance(10)
	c.Opt.IdleOn = r.Chance(40)
	c.MaxIdle = 1 + r.Intn(3)
	nt := 2 + r.Intn(6)
	var sumS, sumT int64
	for i := 0; i < nt; i++ {
		t := WTarget{Hash: uint64(11 + i), Healthy: true, ScrapeOk: true}
		t.Series = loopSeries[r.Intn(len(loopSeries))]
		t.Total = t.Series + r.PickI(0, 0, 0, 10, 40)
		switch x := r.Intn(40); {
		case x == 0:
			t.Series, t.Total = 0, 0 // zero-size target
		case x == 1:
			t.Series = c.Opt.MaxProc + 20 // too big
			t.Total = t.Series
		case x == 2 && c.Opt.MaxHead != 0:
			t.Series = c.Opt.MaxHead // exactly the limit
			if t.Total < t.Series {
				t.Total = t.Series
			}
		case x == 3:
			t.Healthy = false
		case x == 4:
			t.ScrapeOk = false
		}
		c.Targets = append(c.Targets, t)
		sumS += t.Series
		sumT += t.Total
	}
	// enough allowed shards: every target alone on a shard is always possible
	c.Opt.MaxShard = int32(nt + 1 + r.Intn(2))
	c.Opt.MinShard = int32(1 + r.Intn(2))
	c.Replicas = 1 + r.Intn(3)
	for _, t := range c.Targets {
		if r.Chance(85) {
			c.Active = append(c.Active, t.Hash)
		}
	}
	if len(c.Active) == 0 {
		c.Active = []uint64{c.Targets[0].Hash}
	}
	truth := map[uint64]WTarget{}
	for _, t := range c.Targets {
		truth[t.Hash] = t
	}
	// initial placement, as an earlier coordinator (or an operator) may have left it
	if r.Chance(70) {
		for i := 0; i < c.Replicas; i++ {
			req := []STgt{}
			for _, t := range c.Targets {
				if r.Chance(35) {
					st := 0
					if r.Chance(20) {
						st = 1
					}
					req = append(req, STgt{Hash: t.Hash, Series: t.Series, Total: t.Total, State: st, Job: int(t.Hash % 2)})
				}
			}
			if len(req) > 0 {
				c.Ops = append(c.Ops, WOp{Kind: "update", Shard: i, Req: req})
			}
		}
		for k := r.Intn(5); k > 0; k-- {
			c.Ops = append(c.Ops, WOp{Kind: "round", Shard: r.Intn(c.Replicas)})
		}
	}
	nops := 3 + r.Intn(14)
	cur := append([]uint64{}, c.Active...)
	for k := 0; k < nops; k++ {
		x := r.Intn(100)
		switch {
		case x < 35:
			op := WOp{Kind: "cycle"}
			if faulty && r.Chance(50) {
				nf := 1 + r.Intn(2)
				op.Faults = make([]WFault, 4)
				for j := 0; j < nf; j++ {
					f := &op.Faults[r.Intn(4)]
					switch r.Intn(6) {
					case 0:
						f.NotReady = true
					case 1:
						f.StatusFail = true
					case 2:
						f.RtFail = true
					case 3:
						f.OutOfSync = true
						f.PushOk = r.Chance(50)
					default:
						f.PostLost = true
					}
				}
				if r.Chance(10) {
					op.ScaleFail = true
				}
			}
			c.Ops = append(c.Ops, op)
		case x < 65:
			c.Ops = append(c.Ops, WOp{Kind: "round", Shard: r.Intn(4)})
		case x < 75:
			c.Ops = append(c.Ops, WOp{Kind: "scrape", Shard: r.Intn(4), Hash: c.Targets[r.Intn(nt)].Hash})
		case x < 82:
			t := c.Targets[r.Intn(nt)]
			s := loopSeries[r.Intn(len(loopSeries))]
			c.Ops = append(c.Ops, WOp{Kind: "grow", Hash: t.Hash, Series: s, Total: s + r.PickI(0, 10, 40)})
		case x < 90:
			// targets added / removed
			nxt := []uint64{}
			for _, t := range c.Targets {
				in := false
				for _, h := range cur {
					if h == t.Hash {
						in = true
					}
				}
				if r.Chance(20) {
					in = !in
				}
				if in {
					nxt = append(nxt, t.Hash)
				}
			}
			cur = nxt
			c.Ops = append(c.Ops, WOp{Kind: "discover", Active: nxt})
		case x < 95:
			if faulty {
				c.Ops = append(c.Ops, WOp{Kind: "restart", Shard: r.Intn(3)})
			} else {
				c.Ops = append(c.Ops, WOp{Kind: "round", Shard: r.Intn(4)})
			}
		default:
			if faulty {
				c.Ops = append(c.Ops, WOp{Kind: "scale", N: 1 + r.Intn(3)})
			} else {
				c.Ops = append(c.Ops, WOp{Kind: "cycle"})
			}
		}
	}
	switch sc := r.Intn(100); {
	case faulty && sc < 20:
		// a hand-over whose destination misses the update: everything sits on an overloaded shard 0,
		// relief moves targets to shard 1, whose update is lost in that very cycle
		c.Opt = COpt{MaxHead: 100, MaxProc: 1000, MaxShard: 5, MinShard: 2, IdleOn: false}
		c.Replicas = 2
		c.Targets, c.Active, c.Ops = nil, nil, nil
		req := []STgt{}
		for i, se := range []int64{50, 40, 40, 10}[:3+r.Intn(2)] {
			t := WTarget{Hash: uint64(11 + i), Series: se, Total: se + r.PickI(0, 10), Healthy: true, ScrapeOk: true}
			c.Targets = append(c.Targets, t)
			c.Active = append(c.Active, t.Hash)
			req = append(req, STgt{Hash: t.Hash, Series: t.Series, Total: t.Total, Job: int(t.Hash % 2)})
		}
		c.Ops = append(c.Ops, WOp{Kind: "update", Shard: 0, Req: req})
		for k := 0; k < 3; k++ {
			c.Ops = append(c.Ops, WOp{Kind: "round", Shard: 0})
		}
		c.Ops = append(c.Ops, WOp{Kind: "cycle", Faults: []WFault{{}, {PostLost: true}}})
		for k := r.Intn(4); k > 0; k-- {
			c.Ops = append(c.Ops, WOp{Kind: "round", Shard: r.Intn(2)})
		}
		if r.Chance(50) {
			// the overload goes away: the lost hand-over is not simply repeated
			c.Ops = append(c.Ops, WOp{Kind: "grow", Hash: 11, Series: 10, Total: 10})
			c.Ops = append(c.Ops, WOp{Kind: "round", Shard: 0})
		}
		if r.Chance(30) {
			c.Ops = append(c.Ops, WOp{Kind: "restart", Shard: r.Intn(2)})
		}
	case !faulty && sc < 15:
		// scale-down of a lightly loaded tail shard that scrapes faster than the shard taking over
		c.Opt = COpt{MaxHead: 0, MaxProc: 1000, MaxShard: 4, MinShard: 1, IdleOn: true}
		c.MaxIdle = 1 + r.Intn(2)
		c.Replicas = 2
		c.Targets, c.Active, c.Ops = nil, nil, nil
		big := WTarget{Hash: 11, Series: 600 + int64(r.Intn(150)), Healthy: true, ScrapeOk: true}
		big.Total = big.Series
		small := WTarget{Hash: 12, Series: 150 + int64(r.Intn(80)), Healthy: true, ScrapeOk: true}
		small.Total = small.Series
		c.Targets = []WTarget{big, small}
		c.Active = []uint64{11, 12}
		c.Ops = append(c.Ops, WOp{Kind: "update", Shard: 0, Req: []STgt{{Hash: 11, Series: big.Series, Total: big.Total, Job: 1}}})
		c.Ops = append(c.Ops, WOp{Kind: "update", Shard: 1, Req: []STgt{{Hash: 12, Series: small.Series, Total: small.Total, Job: 0}}})
		for k := 0; k < 3; k++ {
			c.Ops = append(c.Ops, WOp{Kind: "round", Shard: 0}, WOp{Kind: "round", Shard: 1})
		}
		c.Tail = tail * 5 / 2
		c.TailRounds = []int{1, 2 + r.Intn(2)} // shard 0 once, shard 1 two or three times per cycle
		return c
	}
	if r.Chance(50) {
		// shards scrape at different speeds
		c.Tail = tail * 5 / 2
		for k := 0; k < 7; k++ {
			c.TailRounds = append(c.TailRounds, 1+r.Intn(3))
		}
	}
	return c
}

func loopHasFault(c *WCase) bool {
	for _, op := range c.Ops {
		if op.Kind == "restart" || op.Kind == "scale" || op.ScaleFail {
			return true
		}
		for _, f := range op.Faults {
			if f.any() {
				return true
			}
		}
	}
	return false
}

// why is the final state not the converged one
func loopReason(c *WCase, run *loopRun) string {
	truth := map[uint64]WTarget{}
	for _, t := range c.Targets {
		truth[t.Hash] = t
	}
	for _, op := range c.Ops {
		if op.Kind == "grow" {
			t := truth[op.Hash]
			t.Series, t.Total = op.Series, op.Total
			truth[op.Hash] = t
		}
	}
	active := c.Active
	for _, op := range c.Ops {
		if op.Kind == "discover" {
			active = op.Active
		}
	}
	type hold struct {
		shard int
		e     SEnt
	}
	holders := map[uint64][]hold{}
	if len(run.SnapAfter) == 0 {
		return "no-cycle"
	}
	last := run.SnapAfter[len(run.SnapAfter)-1]
	for i, m := range last.Assign {
		for h, st := range m {
			holders[h] = append(holders[h], hold{i, SEnt{Hash: h, State: st}})
		}
	}
	isActive := map[uint64]bool{}
	for _, h := range active {
		isActive[h] = true
	}
	found := map[string]bool{}
	for h, hs := range holders {
		if !isActive[h] {
			found["leftover-undiscovered"] = true
			continue
		}
		nT := 0
		for _, x := range hs {
			if x.e.State == 1 {
				nT++
			}
		}
		t := truth[h]
		switch {
		case (c.Opt.MaxHead != 0 && t.Series > c.Opt.MaxHead) || t.Series > c.Opt.MaxProc || t.Total > c.Opt.MaxProc:
			found["toobig-stays-assigned"] = true
		case nT > 0 && len(hs) == 1:
			found["intransfer-no-partner"] = true
		case nT > 0 && nT == len(hs):
			found["intransfer-all-copies"] = true
		case nT > 0:
			found["transfer-pending"] = true
		case len(hs) > 1:
			found["duplicate-normal"] = true
		}
	}
	for _, h := range active {
		t := truth[h]
		if len(holders[h]) == 0 && t.Healthy {
			switch {
			case t.Series == 0 && t.Total == 0:
				found["unscraped-zero-size"] = true
			case (c.Opt.MaxHead != 0 && t.Series > c.Opt.MaxHead) || t.Series > c.Opt.MaxProc || t.Total > c.Opt.MaxProc:
				// too big: must not be assigned
			case (c.Opt.MaxHead != 0 && t.Series == c.Opt.MaxHead) || t.Total == c.Opt.MaxProc:
				found["unscraped-at-limit"] = true
			case (c.Opt.MaxHead != 0 && t.Series+1 >= c.Opt.MaxHead) || t.Total+1 >= c.Opt.MaxProc:
				found["unscraped-near-limit"] = true
			default:
				found["unscraped"] = true
			}
		}
	}
	// one cause per history, by a fixed priority: an assigned too-big target keeps relief and
	// scale-down busy for ever, everything else seen next to it is a consequence
	for _, r := range []string{"toobig-stays-assigned", "unscraped-zero-size", "leftover-undiscovered", "intransfer-no-partner",
		"intransfer-all-copies", "duplicate-normal", "transfer-pending", "unscraped-at-limit", "unscraped-near-limit", "unscraped"} {
		if found[r] {
			return r
		}
	}
	return "not-quiet"
}

func runLoop(a Args) *Result {
	res := newResult("loop", a.seed, a.tier)
	res.Rule = "closed loop of the real Coordinator (runOnce) with real sidecars (TargetsManager+Service+Proxy, own store directories), simulated StatefulSet and scrapes: random small configurations (1-3 shards, 2-7 targets incl. zero-size / too big / at-the-limit / unhealthy ones, head and process limits, idle scale-down, min/max shards), arbitrary initial placements (duplicates, pending transfers, leftovers), histories of cycles, scrape rounds, growth, discovery changes and - for C06 - failed POSTs, unready / unreachable / out-of-sync shards, restarts from the store, external scaling; then a fault-free tail of (cycle + 3 scrape rounds); non-trivial = at least one assignment changes in the history; distinct by encoded history"
	rng := NewRng(a.seed)
	n, tail := 300, 14
	if a.tier == "thorough" {
		n, tail = 5000, 20
	}
	if a.n > 0 {
		n = a.n
	}
	work := a.workdir
	if work == "" {
		work = os.TempDir()
	}
	_ = os.MkdirAll(work, 0755)
	var cases []*WCase
	load := func(path string) {
		data, err := os.ReadFile(path)
		if err != nil {
			return
		}
		var wrap struct {
			Case *WCase `json:"case"`
		}
		if json.Unmarshal(data, &wrap) == nil && wrap.Case != nil {
			cases = append(cases, wrap.Case)
		}
	}
	if a.replay != "" {
		load(a.replay)
		n = 0
	} else if a.corpus != "" {
		files, _ := os.ReadDir(a.corpus)
		for _, f := range files {
			load(a.corpus + "/" + f.Name())
		}
		res.Dist["corpus_cases"] = len(cases)
	}
	wantC03, wantC06 := a.wants("C03"), a.wants("C06")
	for i := 0; i < n; i++ {
		faulty := wantC06 && (!wantC03 || i%2 == 1)
		cases = append(cases, genLoopCase(rng.Fork(), faulty, tail))
	}
	var lines []string
	var runs []*loopRun
	var kept []*WCase
	seen := map[string]bool{}
	for _, c := range cases {
		run := runLoopCase(c, work)
		if run.Err != nil {
			res.Mismatch = capViol(res.Mismatch, Violation{Property: "C03", Clause: "harness", Signature: "harness-error", What: run.Err.Error(), Case: map[string]interface{}{"case": c}}, 3)
			continue
		}
		res.Evaluations++
		res.Traces++
		changed := false
		for k := range run.SnapBefore {
			if k < len(run.SnapAfter) && !sameSnap(run.SnapBefore[k], run.SnapAfter[k]) {
				changed = true
			}
		}
		if changed && !seen[run.Line] {
			seen[run.Line] = true
			res.Distinct++
		}
		lines = append(lines, fmt.Sprintf("%d %s", len(lines), run.Line))
		runs = append(runs, run)
		kept = append(kept, c)
	}
	answers, err := runDriver(a.driver, "loop", lines)
	if err != nil {
		res.Mismatch = append(res.Mismatch, Violation{Property: "C03", Clause: "driver", Signature: "driver-failure", What: err.Error()})
		return res
	}
	for i, ans := range answers {
		c, run := kept[i], runs[i]
		full := map[string]interface{}{"case": c}
		prop := "C03"
		if loopHasFault(c) {
			prop = "C06"
			res.count("cases_with_faults")
		} else {
			res.count("cases_fault_free")
		}
		if !a.wants(prop) {
			continue
		}
		toks := strings.Fields(ans)
		if len(toks) < 6 || toks[0] != "case" {
			res.Mismatch = capViol(res.Mismatch, Violation{Property: prop, Clause: "bad-op", Signature: "bad-op", What: ans, Case: full}, 3)
			continue
		}
		if toks[2] != "match=1" {
			res.Mismatch = capViol(res.Mismatch, Violation{Property: prop, Clause: "trace", Signature: "loop-trace",
				What: "the closed-loop history of the real coordinator and sidecars is not a run of Loop.step: " + toks[2], Case: full, Line: lines[i]}, 3)
			// the property monitors below only use what the real components reported and did
		}
		flags := []string{}
		if len(toks) >= 6 && toks[5] != "" {
			flags = strings.Split(toks[5], ",")
		}
		for t := range run.Tags {
			res.count("tag_" + t)
		}
		res.Dist["cycles"] += len(flags)
		// never unscraped: after every cycle (whatever its faults), scrape, restart and discovery change
		res.Dist["keep_pairs_checked"] += run.KeepChecked
		for _, kv := range run.KeepViol {
			kind := "other"
			if i := strings.Index(kv, "("); i >= 0 {
				if j := strings.Index(kv[i:], ")"); j > 0 {
					kind = kv[i+1 : i+j]
				}
			}
			res.ImplViol = capViol(res.ImplViol, Violation{Property: prop, Clause: "neverUnscraped", Signature: prop + "/neverUnscraped/" + kind,
				What: "a discovered target that a running sidecar held is held by no running sidecar after an operation that is not an outside intervention (Loop.run_keep): " + kv, Case: full}, 2)
			break
		}
		res.Dist["handover_removals_checked"] += run.HandChecked
		for _, hv := range run.HandViol {
			res.ImplViol = capViol(res.ImplViol, Violation{Property: prop, Clause: "handoverRule", Signature: prop + "/handoverRule",
				What: "a running sidecar stopped holding a discovered target in a cycle although it, or every other holder, had scraped it fewer than 3 times (Loop.step_handover_f): " + hv, Case: full}, 2)
			break
		}
		// scale-up clause on every cycle
		for k, f := range flags {
			if len(f) == 5 && f[2] == '0' {
				why := "other"
				if k < len(run.ZeroUnplaced) && run.ZeroUnplaced[k] {
					why = "unscraped-zero-size"
				}
				res.ImplViol = capViol(res.ImplViol, Violation{Property: prop, Clause: "scaleUp", Signature: prop + "/scaleUp/" + why,
					What: fmt.Sprintf("cycle %d: all shards in sync, an eligible unscraped target was not placed and more shards are allowed, but the requested shard count does not exceed the current one", k), Case: full}, 2)
				break
			}
		}
		// the stability theorem's hypotheses hold of the real reports => the real cycle must be quiet
		for k, f := range flags {
			if len(f) == 5 && f[4] == '1' {
				res.count("cycles_meeting_stability_hypotheses")
				if f[1] != '1' {
					res.Mismatch = capViol(res.Mismatch, Violation{Property: prop, Clause: "stable", Signature: "stable-theorem-vs-impl",
						What: fmt.Sprintf("cycle %d: the reports of the real shards satisfy the hypotheses of C03_stable_checked, but the real cycle sent updates or changed the scale", k), Case: full}, 3)
				}
			}
		}
		// convergence in the fault-free tail
		j0 := -1
		for k := len(flags) - 1; k >= run.TailFrom; k-- {
			f := flags[k]
			stable := len(f) == 5 && f[0] == '1' && f[1] == '1' && k < len(run.SnapAfter) && sameSnap(run.SnapBefore[k], run.SnapAfter[k])
			if !stable {
				break
			}
			j0 = k
		}
		if j0 < 0 {
			why := loopReason(c, run)
			res.count("not_converged_" + why)
			res.ImplViol = capViol(res.ImplViol, Violation{Property: prop, Clause: "converges", Signature: prop + "/converges/" + why,
				What: fmt.Sprintf("after %d fault-free cycles (1-3 scrape rounds per shard each) the shards are not in the converged, quiet state: %s; flags per cycle (converged,quiet,scaleUpClause,faulty,stabilityHypotheses) %s", c.Tail, why, strings.Join(flags[run.TailFrom:], ",")), Case: full}, 2)
		} else {
			res.count(fmt.Sprintf("converged_after_%02d", j0-run.TailFrom))
		}
		if len(res.Samples) < 3 {
			res.addSample(map[string]interface{}{"case": c, "answer": ans})
		}
	}
	return res
}
