package main

import (
	"bufio"
	"bytes"
	"encoding/json"
	"fmt"
	"os"
	"os/exec"
	"sort"
	"strings"
)

// ---------- deterministic PRNG (splitmix64); every random choice derives from it ----------

type Rng struct{ s uint64 }

// the seed is mixed first: with a plain multiple of the increment, seed k+1 would be seed k's
// stream shifted by one draw
func NewRng(seed uint64) *Rng {
	z := seed ^ 0xD1B54A32D192ED03
	z = (z ^ (z >> 30)) * 0xBF58476D1CE4E5B9
	z = (z ^ (z >> 27)) * 0x94D049BB133111EB
	return &Rng{s: z ^ (z >> 31)}
}
func (r *Rng) U64() uint64 {
	r.s += 0x9E3779B97F4A7C15
	z := r.s
	z = (z ^ (z >> 30)) * 0xBF58476D1CE4E5B9
	z = (z ^ (z >> 27)) * 0x94D049BB133111EB
	return z ^ (z >> 31)
}
func (r *Rng) Intn(n int) int {
	if n <= 0 {
		return 0
	}
	return int(r.U64() % uint64(n))
}
func (r *Rng) Chance(pct int) bool       { return r.Intn(100) < pct }
func (r *Rng) PickI(xs ...int64) int64   { return xs[r.Intn(len(xs))] }
func (r *Rng) PickS(xs ...string) string { return xs[r.Intn(len(xs))] }
func (r *Rng) Fork() *Rng                { return NewRng(r.U64()) }

// ---------- result file written for bin/check ----------

type Violation struct {
	Property  string      `json:"property"`
	Clause    string      `json:"clause"`
	Signature string      `json:"signature"`
	What      string      `json:"what"`
	Case      interface{} `json:"case"`
	Line      string      `json:"line,omitempty"`
}

type Result struct {
	Engine      string         `json:"engine"`
	Seed        uint64         `json:"seed"`
	Tier        string         `json:"tier"`
	Evaluations int            `json:"evaluations"`
	Distinct    int            `json:"distinct_nontrivial"`
	Rule        string         `json:"rule"`
	Traces      int            `json:"traces_validated_against_impl"`
	Samples     []interface{}  `json:"samples"`
	Dist        map[string]int `json:"distribution"`
	ImplViol    []Violation    `json:"impl_violations"`
	ModelViol   []Violation    `json:"model_violations"`
	Mismatch    []Violation    `json:"mismatches"`
	Notes       []string       `json:"notes"`
	Exhaustive  bool           `json:"exhaustive"`
}

func newResult(engine string, seed uint64, tier string) *Result {
	return &Result{Engine: engine, Seed: seed, Tier: tier, Dist: map[string]int{},
		Samples: []interface{}{}, ImplViol: []Violation{}, ModelViol: []Violation{}, Mismatch: []Violation{}, Notes: []string{}}
}

func (r *Result) count(k string) { r.Dist[k]++ }

func (r *Result) addSample(s interface{}) {
	if len(r.Samples) < 5 {
		r.Samples = append(r.Samples, s)
	}
}

func (r *Result) write(path string) {
	data, _ := json.MarshalIndent(r, "", " ")
	if err := os.WriteFile(path, data, 0644); err != nil {
		fmt.Fprintln(os.Stderr, "write result:", err)
		os.Exit(3)
	}
}

// keep at most n violations per signature
func capViol(vs []Violation, v Violation, n int) []Violation {
	c := 0
	for _, x := range vs {
		if x.Signature == v.Signature {
			c++
		}
	}
	if c >= n {
		return vs
	}
	return append(vs, v)
}

// ---------- Lean driver ----------

// runDriver feeds lines to `driver <engine>` and returns one answer per line.
func runDriver(driver string, engine string, lines []string) ([]string, error) {
	cmd := exec.Command(driver, engine)
	cmd.Stdin = strings.NewReader(strings.Join(lines, "\n") + "\n")
	var out bytes.Buffer
	cmd.Stdout = &out
	cmd.Stderr = os.Stderr
	if err := cmd.Run(); err != nil {
		return nil, fmt.Errorf("driver %s: %v", engine, err)
	}
	var res []string
	sc := bufio.NewScanner(&out)
	sc.Buffer(make([]byte, 1<<20), 1<<26)
	for sc.Scan() {
		res = append(res, sc.Text())
	}
	if len(res) != len(lines) {
		return res, fmt.Errorf("driver %s answered %d lines for %d", engine, len(res), len(lines))
	}
	return res, nil
}

// parse "k=v" fields following a marker word up to the next marker
func fieldsAfter(ans string, marker string, stops ...string) map[string]string {
	toks := strings.Fields(ans)
	m := map[string]string{}
	on := false
	for _, t := range toks {
		if t == marker {
			on = true
			continue
		}
		stop := false
		for _, s := range stops {
			if t == s {
				stop = true
			}
		}
		if stop {
			on = false
			continue
		}
		if on {
			kv := strings.SplitN(t, "=", 2)
			if len(kv) == 2 {
				m[kv[0]] = kv[1]
			}
		}
	}
	return m
}

func sortedKeysU64(m map[uint64]bool) []uint64 {
	ks := make([]uint64, 0, len(m))
	for k := range m {
		ks = append(ks, k)
	}
	sort.Slice(ks, func(i, j int) bool { return ks[i] < ks[j] })
	return ks
}

type ints struct{ b strings.Builder }

func (w *ints) add(xs ...int64) {
	for _, x := range xs {
		if w.b.Len() > 0 {
			w.b.WriteByte(' ')
		}
		fmt.Fprintf(&w.b, "%d", x)
	}
}
func (w *ints) bool(b bool) {
	if b {
		w.add(1)
	} else {
		w.add(0)
	}
}
func (w *ints) String() string { return w.b.String() }
