package main

// Engine "proxy": the real sidecar Proxy behind an httptest server, scraped by a real HTTP client;
// the target is an in-memory RoundTripper whose body is delivered in scripted reads (C12, C13).

import (
	"bytes"
	"compress/gzip"
	"fmt"
	"io"
	"log"
	"net/http"
	"net/http/httptest"
	"os"
	"runtime"
	"strings"
	"time"

	"github.com/prometheus/client_golang/prometheus"

	"tkestack.io/kvass/pkg/prom"
	"tkestack.io/kvass/pkg/scrape"
	"tkestack.io/kvass/pkg/sidecar"
	"tkestack.io/kvass/pkg/target"
)

type PChunk struct {
	N   int  `json:"n"`
	Err bool `json:"err"`
}
type PCase struct {
	Stopped  bool     `json:"stopped"`
	JobKnown bool     `json:"jobKnown"`
	HashOk   bool     `json:"hashOk"`
	Assigned bool     `json:"assigned"`
	ReqFails bool     `json:"reqFails"`
	Code     int      `json:"code"`
	Gzip     bool     `json:"gzip"`
	Payload  string   `json:"payloadKind"`
	Size     int      `json:"size"`
	Reads    []PChunk `json:"reads"`  // how the body is handed out, one entry per Read call
	CutAt    int      `json:"cutAt"`  // -1: complete; otherwise the body breaks off after this many (wire) bytes
	CutErr   string   `json:"cutErr"` // how it breaks off: "unexpected EOF" | "reset" | "timeout"
	// when set, the proxy is called in process with a ResponseWriter whose Write accepts at most
	// ShortWrites[k % len] bytes on its k-th call (a short write, no error)
	ShortWrites []int `json:"shortWrites,omitempty"`
	// gzip only: the body is this many concatenated gzip members (RFC 1952 2.2), 0 or 1 = a single one
	Members int `json:"members,omitempty"`
}

// a ResponseWriter that takes fewer bytes than offered
type shortWriter struct {
	h     http.Header
	code  int
	buf   bytes.Buffer
	sizes []int
	k     int
}

func (w *shortWriter) Header() http.Header { return w.h }
func (w *shortWriter) WriteHeader(c int) {
	if w.code == 0 {
		w.code = c
	}
}
func (w *shortWriter) Write(p []byte) (int, error) {
	if w.code == 0 {
		w.code = 200
	}
	n := w.sizes[w.k%len(w.sizes)]
	w.k++
	if n > len(p) {
		n = len(p)
	}
	w.buf.Write(p[:n])
	return n, nil
}

// scripted body: hands out data in the given read sizes, then EOF or an error
type scriptedBody struct {
	data   []byte
	sizes  []int
	cutAt  int
	cutErr string
	pos    int
	k      int
	reads  []PChunk // what Read actually returned (non-EOF error flag)
	closed bool
}

func (b *scriptedBody) Read(p []byte) (int, error) {
	limit := len(b.data)
	if b.cutAt >= 0 && b.cutAt < limit {
		limit = b.cutAt
	}
	if b.pos >= limit {
		if b.cutAt >= 0 {
			b.reads = append(b.reads, PChunk{0, true})
			switch b.cutErr {
			case "reset":
				return 0, fmt.Errorf("read tcp 10.0.0.1:1234->10.0.0.2:80: read: connection reset by peer")
			case "timeout":
				return 0, fmt.Errorf("context deadline exceeded (Client.Timeout or context cancellation while reading body)")
			}
			return 0, io.ErrUnexpectedEOF
		}
		return 0, io.EOF
	}
	n := 1 + len(b.data)
	if b.k < len(b.sizes) {
		n = b.sizes[b.k]
		b.k++
	}
	if n > len(p) {
		n = len(p)
	}
	if n > limit-b.pos {
		n = limit - b.pos
	}
	copy(p, b.data[b.pos:b.pos+n])
	b.pos += n
	b.reads = append(b.reads, PChunk{n, false})
	return n, nil
}
func (b *scriptedBody) Close() error { b.closed = true; return nil }

func mkPayload(kind string, size int, r *Rng) []byte {
	var b bytes.Buffer
	switch kind {
	case "empty":
	case "oneline":
		b.WriteString("up 1\n")
	case "comments":
		b.WriteString("# HELP x y\n\n# TYPE x gauge\n\nx{a=\"b\"} 1\n\n\n# trailing comment without newline")
	case "rejected":
		b.WriteString("ok_metric 1\nthis line is garbage !!! {{{\nbad{ 3\nok_metric2{l=\"v\"} 2 1700000000000\n123abc 4\n")
	default: // many lines
		for i := 0; b.Len() < size; i++ {
			fmt.Fprintf(&b, "metric_%d{idx=\"%d\",pad=\"%s\"} %d\n", i%17, i, strings.Repeat("x", r.Intn(40)), i)
		}
	}
	return b.Bytes()
}

func runProxyCase(c *PCase, rng *Rng) (line string, obs map[string]interface{}, err error) {
	lg := quietLog()
	reg := prometheus.NewRegistry()
	cfg := prom.NewConfigManager()
	sm := scrape.New(false, lg)
	cfg.AddReloadCallbacks(sm.ApplyConfig)
	if err := cfg.ReloadFromRaw([]byte(sidecarCfg)); err != nil {
		return "", nil, err
	}
	if c.Stopped {
		_ = cfg.UpdateExtraConfig(prom.ExtraConfig{StopScrapeReason: "stopped by test"})
	}
	payload := mkPayload(c.Payload, c.Size, rng)
	wire := payload
	if c.Gzip {
		var zb bytes.Buffer
		m := c.Members
		if m < 1 {
			m = 1
		}
		for k := 0; k < m; k++ {
			zw := gzip.NewWriter(&zb)
			_, _ = zw.Write(payload[k*len(payload)/m : (k+1)*len(payload)/m])
			_ = zw.Close()
		}
		wire = zb.Bytes()
	}
	sizes := []int{}
	for _, r := range c.Reads {
		sizes = append(sizes, r.N)
	}
	body := &scriptedBody{data: wire, sizes: sizes, cutAt: c.CutAt, cutErr: c.CutErr}
	ji := sm.GetJob("job0")
	ji.Cli = &http.Client{Transport: &scriptedRT{f: func(req *http.Request) (*http.Response, error) {
		if c.ReqFails {
			return nil, fmt.Errorf("scripted: connection refused")
		}
		h := http.Header{"Content-Type": []string{"text/plain; version=0.0.4; charset=utf-8"}}
		if c.Gzip {
			h.Set("Content-Encoding", "gzip")
		}
		return &http.Response{StatusCode: c.Code, Status: fmt.Sprintf("%d x", c.Code), Header: h, Body: body, Request: req}, nil
	}}}
	const hash = uint64(4242)
	status := map[uint64]*target.ScrapeStatus{}
	if c.Assigned {
		st := target.NewScrapeStatus(7, -1)
		status[hash] = st
	}
	proxy := sidecar.NewProxy(sm.GetJob, func() map[uint64]*target.ScrapeStatus { return status }, cfg.ConfigInfo, reg, lg)
	srv := httptest.NewUnstartedServer(proxy)
	srv.Config.ErrorLog = log.New(io.Discard, "", 0)
	srv.Start()
	defer srv.Close()
	job := "job0"
	if !c.JobKnown {
		job = "nosuchjob"
	}
	hs := fmt.Sprint(hash)
	if !c.HashOk {
		hs = "12x"
	}
	url := fmt.Sprintf("%s/metrics?_jobName=%s&_hash=%s&_scheme=http", srv.URL, job, hs)
	cli := &http.Client{Timeout: 10 * time.Second, Transport: &http.Transport{DisableCompression: true, DisableKeepAlives: true}}
	var resp *http.Response
	var cerr error
	clientErr := false
	code := 0
	var got []byte
	ctype := ""
	if len(c.ShortWrites) > 0 {
		sw := &shortWriter{h: http.Header{}, sizes: c.ShortWrites}
		func() {
			defer func() {
				if r := recover(); r != nil {
					clientErr = true // the handler aborted the response
				}
			}()
			proxy.ServeHTTP(sw, httptest.NewRequest("GET", url, nil))
		}()
		code = sw.code
		if code == 0 {
			code = 200
		}
		ctype = sw.h.Get("Content-Type")
		got = sw.buf.Bytes()
	} else {
		resp, cerr = cli.Get(url)
		clientErr = cerr != nil
	}
	if resp != nil {
		code = resp.StatusCode
		ctype = resp.Header.Get("Content-Type")
		var rerr error
		got, rerr = io.ReadAll(resp.Body)
		_ = resp.Body.Close()
		if rerr != nil {
			clientErr = true
		}
	}
	isPrefix := len(got) <= len(payload) && bytes.Equal(got, payload[:len(got)])
	// model chunks: for identity encoding the reads the body really served; for gzip (reads are of the
	// compressed stream) one chunk: everything on success, what was forwarded followed by an error otherwise
	var chunks []PChunk
	if c.Gzip {
		if c.CutAt < 0 {
			chunks = []PChunk{{len(payload), false}}
		} else {
			// an aborted response means something had been forwarded, even if the client saw none of it
			n := len(got)
			if clientErr && n == 0 {
				n = 1
			}
			chunks = []PChunk{{n, true}}
		}
	} else {
		chunks = body.reads
	}
	w := &ints{}
	w.bool(c.Stopped)
	w.bool(c.JobKnown)
	w.bool(c.HashOk)
	w.bool(c.Assigned)
	w.bool(c.ReqFails)
	w.add(int64(c.Code), int64(len(chunks)))
	for _, ch := range chunks {
		w.add(int64(ch.N))
		w.bool(ch.Err)
	}
	w.bool(clientErr)
	w.add(int64(code), int64(len(got)))
	w.bool(isPrefix)
	times, health, recorded := int64(0), int64(0), false
	if st := status[hash]; st != nil {
		times = int64(st.ScrapeTimes)
		switch st.Health {
		case "up":
			health = 1
		case "down":
			health = 2
		}
		recorded = st.TotalSeries != -1
	}
	w.add(times, health)
	w.bool(recorded)
	obs = map[string]interface{}{"clientError": clientErr, "status": code, "bodyBytes": len(got), "bodyIsPrefixOfTarget": isPrefix,
		"contentType": ctype, "scrapeTimes": times, "health": health, "recorded": recorded, "servedReads": len(body.reads), "payloadBytes": len(payload)}
	if cerr != nil {
		obs["clientErrorText"] = cerr.Error()
	}
	// content type is part of C12 but not of the abstract model: checked here
	if !c.Stopped && c.JobKnown && c.HashOk && !c.ReqFails && c.Code == 200 && c.CutAt < 0 && !clientErr && ctype != "text/plain; version=0.0.4; charset=utf-8" {
		obs["contentTypeWrong"] = true
	}
	return w.String(), obs, nil
}

func genProxyCase(r *Rng, big bool) *PCase {
	c := &PCase{JobKnown: r.Chance(93), HashOk: r.Chance(93), Assigned: r.Chance(70), Stopped: r.Chance(10),
		ReqFails: r.Chance(8), Code: 200, CutAt: -1, Gzip: r.Chance(35)}
	if r.Chance(8) {
		c.Code = int(r.PickI(404, 500, 503, 204))
	}
	c.Payload = r.PickS("empty", "oneline", "comments", "rejected", "many", "many", "many")
	c.Size = 50 + r.Intn(3000)
	if big && r.Chance(20) {
		c.Size = 200000 + r.Intn(3000000)
	}
	nr := r.Intn(12)
	for i := 0; i < nr; i++ {
		c.Reads = append(c.Reads, PChunk{N: int(r.PickI(1, 1, 2, 7, 64, 500, 4096, 65537))})
	}
	if r.Chance(7) {
		// a body of several write blocks delivered as a small piece, then pieces of a block or more, then
		// small ones again (what a slow start of a large identity-encoded response looks like)
		c.Size = 40000 + r.Intn(160000)
		c.Payload = "many"
		c.Reads = []PChunk{{N: int(r.PickI(1, 7, 500, 1500, 4096))}}
		for i := 0; i < 1+r.Intn(3); i++ {
			c.Reads = append(c.Reads, PChunk{N: int(r.PickI(32768, 40000, 65537, 4096))})
		}
		c.Reads = append(c.Reads, PChunk{N: int(r.PickI(1, 64, 4096))})
	}
	if c.Reads == nil {
		c.Reads = []PChunk{}
	}
	if r.Chance(25) {
		n := 1 + r.Intn(3)
		for i := 0; i < n; i++ {
			c.ShortWrites = append(c.ShortWrites, int(r.PickI(1, 1, 3, 7, 100, 300, 5000)))
		}
	}
	return c
}

// parkWriter is a ResponseWriter whose first Header() call - made by the handler between getting the
// target's response headers and reading its body - runs a hook
type parkWriter struct {
	h        http.Header
	status   int
	body     bytes.Buffer
	onHeader func()
}

func (w *parkWriter) Header() http.Header {
	if f := w.onHeader; f != nil {
		w.onHeader = nil
		f()
	}
	return w.h
}
func (w *parkWriter) WriteHeader(c int) {
	if w.status == 0 {
		w.status = c
	}
}
func (w *parkWriter) Write(p []byte) (int, error) {
	if w.status == 0 {
		w.status = 200
	}
	return w.body.Write(p)
}

func runProxyOverlap(gz bool, rounds int) string {
	defer runtime.GOMAXPROCS(runtime.GOMAXPROCS(1))
	lg := quietLog()
	cfg := prom.NewConfigManager()
	sm := scrape.New(false, lg)
	cfg.AddReloadCallbacks(sm.ApplyConfig)
	if err := cfg.ReloadFromRaw([]byte(sidecarCfg)); err != nil {
		return ""
	}
	bodies := map[string][]byte{
		"warm:80": mkPayload("many", 300, NewRng(1)),
		"a:80":    mkPayload("many", 90000, NewRng(2)),
		"b:80":    mkPayload("many", 60000, NewRng(3)),
	}
	ji := sm.GetJob("job0")
	ji.Cli = &http.Client{Transport: &scriptedRT{f: func(req *http.Request) (*http.Response, error) {
		plain := bodies[req.URL.Host]
		wire := plain
		h := http.Header{"Content-Type": []string{"text/plain; version=0.0.4"}}
		if gz {
			var zb bytes.Buffer
			zw := gzip.NewWriter(&zb)
			_, _ = zw.Write(plain)
			_ = zw.Close()
			wire = zb.Bytes()
			h.Set("Content-Encoding", "gzip")
		}
		return &http.Response{StatusCode: 200, Status: "200 OK", Header: h, Body: io.NopCloser(bytes.NewReader(wire)), Request: req}, nil
	}}}
	status := map[uint64]*target.ScrapeStatus{1: target.NewScrapeStatus(0, 0), 2: target.NewScrapeStatus(0, 0)}
	proxy := sidecar.NewProxy(sm.GetJob, func() map[uint64]*target.ScrapeStatus { return status }, cfg.ConfigInfo, prometheus.NewRegistry(), lg)
	serve := func(w *parkWriter, host string, hash int) (aborted bool) {
		defer func() {
			if e := recover(); e != nil {
				aborted = true
			}
		}()
		u := fmt.Sprintf("http://%s/metrics?_jobName=job0&_hash=%d&_scheme=http", host, hash)
		proxy.ServeHTTP(w, httptest.NewRequest("GET", u, nil))
		return false
	}
	judge := func(who string, w *parkWriter, ab bool, want []byte) string {
		if ab || (w.status != 0 && w.status != 200) {
			return fmt.Sprintf("%s: the target answered correctly but the response was aborted=%v status=%d", who, ab, w.status)
		}
		if !bytes.Equal(w.body.Bytes(), want) {
			return fmt.Sprintf("%s: %d bytes forwarded with status 200, the target served %d other bytes", who, w.body.Len(), len(want))
		}
		return ""
	}
	for round := 0; round < rounds; round++ {
		w0 := &parkWriter{h: http.Header{}}
		if v := judge("warm-up scrape", w0, serve(w0, "warm:80", 99), bodies["warm:80"]); v != "" {
			return v
		}
		wa, wb := &parkWriter{h: http.Header{}}, &parkWriter{h: http.Header{}}
		bStarted, aDone, bDone := make(chan struct{}), make(chan struct{}), make(chan struct{})
		var abB bool
		wa.onHeader = func() {
			go func() {
				defer close(bDone)
				abB = serve(wb, "b:80", 2)
			}()
			select {
			case <-bStarted:
			case <-time.After(10 * time.Second):
			}
		}
		wb.onHeader = func() {
			close(bStarted)
			select {
			case <-aDone:
			case <-time.After(10 * time.Second):
			}
		}
		abA := serve(wa, "a:80", 1)
		close(aDone)
		select {
		case <-bDone:
		case <-time.After(20 * time.Second):
			return "the second of two overlapping scrapes did not finish"
		}
		if v := judge(fmt.Sprintf("round %d, first of two overlapping scrapes", round), wa, abA, bodies["a:80"]); v != "" {
			return v
		}
		if v := judge(fmt.Sprintf("round %d, second of two overlapping scrapes", round), wb, abB, bodies["b:80"]); v != "" {
			return v
		}
	}
	return ""
}

// proxyFailureStreak: one assigned target is scraped several times in a row, failing each time for a
// different reason; after every scrape the target's status has to show the outcome of *that* scrape
// (C13: "the target's status shows health down with the error; a successful scrape shows health up
// with no error")
func proxyFailureStreak(res *Result) {
	lg := quietLog()
	cfg := prom.NewConfigManager()
	sm := scrape.New(false, lg)
	cfg.AddReloadCallbacks(sm.ApplyConfig)
	if err := cfg.ReloadFromRaw([]byte(sidecarCfg)); err != nil {
		return
	}
	type step struct {
		kind  string
		token string // what the recorded error has to mention ("" = no error)
	}
	steps := []step{{"ok", ""}, {"503", "503"}, {"cut", "eof"}, {"stopped", "stopped by test"}, {"refused", "connection refused"}, {"404", "404"}, {"ok", ""}, {"refused", "connection refused"}, {"cut", "eof"}}
	cur := ""
	payload := mkPayload("many", 400, NewRng(11))
	rt := &scriptedRT{}
	install := func() {
		if ji := sm.GetJob("job0"); ji != nil {
			ji.Cli = &http.Client{Transport: rt}
		}
	}
	rt.f = func(req *http.Request) (*http.Response, error) {
		h := http.Header{"Content-Type": []string{"text/plain; version=0.0.4; charset=utf-8"}}
		switch cur {
		case "refused":
			return nil, fmt.Errorf("scripted: connection refused")
		case "503":
			return &http.Response{StatusCode: 503, Status: "503 x", Header: h, Body: io.NopCloser(bytes.NewReader(nil)), Request: req}, nil
		case "404":
			return &http.Response{StatusCode: 404, Status: "404 x", Header: h, Body: io.NopCloser(bytes.NewReader(nil)), Request: req}, nil
		case "cut":
			return &http.Response{StatusCode: 200, Status: "200 x", Header: h, Body: &scriptedBody{data: payload, sizes: []int{64}, cutAt: 130, cutErr: "unexpected EOF"}, Request: req}, nil
		}
		return &http.Response{StatusCode: 200, Status: "200 x", Header: h, Body: &scriptedBody{data: payload, sizes: []int{64}, cutAt: -1}, Request: req}, nil
	}
	install()
	const hash = uint64(4243)
	st := target.NewScrapeStatus(7, -1)
	status := map[uint64]*target.ScrapeStatus{hash: st}
	proxy := sidecar.NewProxy(sm.GetJob, func() map[uint64]*target.ScrapeStatus { return status }, cfg.ConfigInfo, prometheus.NewRegistry(), lg)
	srv := httptest.NewUnstartedServer(proxy)
	srv.Config.ErrorLog = log.New(io.Discard, "", 0)
	srv.Start()
	defer srv.Close()
	url := fmt.Sprintf("%s/metrics?_jobName=job0&_hash=%d&_scheme=http", srv.URL, hash)
	cli := &http.Client{Timeout: 10 * time.Second, Transport: &http.Transport{DisableCompression: true, DisableKeepAlives: true}}
	history := []string{}
	for i, sp := range steps {
		cur = sp.kind
		if sp.kind == "stopped" {
			_ = cfg.UpdateExtraConfig(prom.ExtraConfig{StopScrapeReason: "stopped by test"})
		} else {
			_ = cfg.UpdateExtraConfig(prom.ExtraConfig{})
		}
		install() // a changed extra configuration rebuilds the job objects
		before := st.ScrapeTimes
		if resp, err := cli.Get(url); err == nil {
			_, _ = io.Copy(io.Discard, resp.Body)
			_ = resp.Body.Close()
		}
		history = append(history, sp.kind)
		res.Evaluations++
		res.count("failure_streak_steps")
		le := strings.ToLower(st.LastError)
		bad := ""
		switch {
		case sp.token == "" && (st.Health != "up" || st.LastError != ""):
			bad = fmt.Sprintf("a successful scrape leaves health %q, error %q", st.Health, st.LastError)
		case sp.token != "" && st.Health != "down":
			bad = fmt.Sprintf("a failed scrape (%s) leaves health %q", sp.kind, st.Health)
		case sp.token != "" && !strings.Contains(le, sp.token):
			bad = fmt.Sprintf("the scrape failed with %q, the status shows the error %q", sp.kind, st.LastError)
		case st.ScrapeTimes != before+1:
			bad = fmt.Sprintf("the scrape counter went from %d to %d", before, st.ScrapeTimes)
		}
		if bad != "" {
			res.ImplViol = capViol(res.ImplViol, Violation{Property: "C13", Clause: "streak", Signature: "C13/streak",
				What: fmt.Sprintf("scrape %d of the sequence %v of one assigned target: %s", i+1, history, bad),
				Case: map[string]interface{}{"scenario": "failureStreak", "history": history}}, 2)
			return
		}
	}
}

func runProxy(a Args) *Result {
	res := newResult("proxy", a.seed, a.tier)
	res.Rule = "scrapes through the real Proxy (httptest server, real HTTP client) of an in-memory target: payload kinds (empty, one line, comments/blank lines, lines the parser rejects, many lines, multi-MB in thorough), body handed out in scripted read sizes 1..64KiB+1, gzip or identity, every failure kind (unknown job, bad hash, connection error, non-200, stopped) and, for mid-body failures, every byte offset of a small body (thorough: of a 4 KiB body); plus two scrapes overlapping in time (the second starts between the first one's response headers and its body), gzip and identity; non-trivial = the scrape reaches the body; distinct by encoded case"
	rng := NewRng(a.seed)
	n := 250
	if a.tier == "thorough" {
		n = 4000
	}
	if a.n > 0 {
		n = a.n
	}
	if a.replay == "" && a.wants("C13") {
		proxyFailureStreak(res)
	}
	var cases []*PCase
	for i := 0; i < n; i++ {
		cases = append(cases, genProxyCase(rng.Fork(), a.tier == "thorough"))
	}
	// every cut offset of a small multi-read body, identity and gzip
	cutSize := 160
	if a.tier == "thorough" {
		cutSize = 4096
	}
	for _, gz := range []bool{false, true} {
		probe := mkPayload("many", cutSize, NewRng(7))
		wireLen := len(probe)
		if gz {
			var zb bytes.Buffer
			zw := gzip.NewWriter(&zb)
			_, _ = zw.Write(probe)
			_ = zw.Close()
			wireLen = zb.Len()
		}
		for cut := 0; cut <= wireLen; cut++ {
			for _, asg := range []bool{true, false} {
				if !asg && cut%5 != 0 {
					continue
				}
				cases = append(cases, &PCase{JobKnown: true, HashOk: true, Assigned: asg, Code: 200, Gzip: gz, Payload: "many", Size: cutSize,
					Reads: []PChunk{{N: 40}, {N: 1}, {N: 70}, {N: 3}}, CutAt: cut, CutErr: []string{"unexpected EOF", "reset", "timeout"}[cut%3]})
			}
		}
	}
	// gzip bodies made of several members (an exporter that compresses and flushes section by section):
	// a plain Prometheus reads them as one body
	for _, m := range []int{2, 3, 5} {
		for _, size := range []int{160, 3000, 80000} {
			for _, asg := range []bool{true, false} {
				cases = append(cases, &PCase{JobKnown: true, HashOk: true, Assigned: asg, Code: 200, Gzip: true, Members: m, Payload: "many", Size: size,
					Reads: []PChunk{{N: 4096}, {N: 1}, {N: 700}}, CutAt: -1})
			}
		}
	}
	var lines []string
	var kept []*PCase
	var keptObs []map[string]interface{}
	for _, c := range cases {
		r2 := NewRng(7)
		if c.CutAt < 0 {
			r2 = rng.Fork()
		}
		line, obs, err := runProxyCase(c, r2)
		if err != nil {
			res.Notes = append(res.Notes, "harness: "+err.Error())
			continue
		}
		kept = append(kept, c)
		keptObs = append(keptObs, obs)
		lines = append(lines, fmt.Sprintf("%d %s", len(kept)-1, line))
		if obs["contentTypeWrong"] != nil {
			res.ImplViol = capViol(res.ImplViol, Violation{Property: "C12", Clause: "contentType", Signature: "C12/contentType",
				What: "the proxy does not pass on the target's content type", Case: map[string]interface{}{"case": c, "observed": obs}}, 3)
		}
	}
	res.Evaluations = len(lines)
	// two scrapes that overlap in time (the second starts after the first has its response headers and
	// before it has read the body): each must deliver its own target's bytes.  Purely observational.
	for _, gz := range []bool{true, false} {
		if what := runProxyOverlap(gz, 4); what != "" {
			res.ImplViol = capViol(res.ImplViol, Violation{Property: "C12", Clause: "overlap", Signature: "C12/overlap",
				What: what, Case: map[string]interface{}{"case": map[string]interface{}{"kind": "overlapping scrapes", "gzip": gz}}}, 2)
		}
		res.Evaluations++
		res.count("overlapping_scrape_rounds")
	}
	answers, err := runDriver(a.driver, "proxy", lines)
	if err != nil {
		res.Mismatch = append(res.Mismatch, Violation{Property: "*", Clause: "driver", Signature: "driver-failure", What: err.Error()})
		return res
	}
	distinct := map[string]bool{}
	for i, ans := range answers {
		full := map[string]interface{}{"case": kept[i], "observed": keptObs[i]}
		if !strings.HasPrefix(ans, "case ") {
			res.Mismatch = append(res.Mismatch, Violation{Property: "*", Clause: "bad-op", Signature: "bad-op", What: ans, Case: full, Line: lines[i]})
			continue
		}
		top := fieldsAfter(ans, "case", "impl", "model", "tags")
		impl := fieldsAfter(ans, "impl", "model", "tags")
		model := fieldsAfter(ans, "model", "tags")
		tag := ""
		if idx := strings.Index(ans, " tags "); idx >= 0 {
			tag = strings.TrimSpace(ans[idx+6:])
		}
		res.count("tag_" + tag)
		if kept[i].Members > 1 {
			res.count("gzip_multi_member")
		}
		if kept[i].Gzip {
			res.count("gzip")
		}
		if tag != "rejected" && tag != "requestFails" {
			distinct[lines[i][strings.Index(lines[i], " ")+1:]] = true
		}
		res.Traces++
		if i%211 == 0 {
			res.addSample(full)
		}
		if top["match"] != "1" {
			for _, p := range []string{"C12", "C13"} {
				if a.wants(p) {
					res.Mismatch = capViol(res.Mismatch, Violation{Property: p, Clause: "correspondence", Signature: "proxy/nomatch",
						What: "Proxy.serve (model) and the real proxy disagree (" + ans + ")", Case: full, Line: lines[i]}, 3)
				}
			}
		}
		for p, v := range impl {
			if v != "ok" && a.wants(p) {
				res.ImplViol = capViol(res.ImplViol, Violation{Property: p, Clause: v, Signature: p + "/" + v,
					What: fmt.Sprintf("Spec.Px.%s clause %s false on the real proxy", p, v), Case: full, Line: lines[i]}, 3)
			}
		}
		for p, v := range model {
			if v != "ok" && a.wants(p) {
				res.ModelViol = capViol(res.ModelViol, Violation{Property: p, Clause: v, Signature: p + "/" + v,
					What: fmt.Sprintf("Spec.Px.%s false on the model", p), Case: full, Line: lines[i]}, 3)
			}
		}
	}
	res.Distinct = len(distinct)
	_ = os.Getpid
	return res
}
