package main

// Engine "store": crash-safe persistence of the sidecar's assignment (C09).
// A child process performs the real UpdateTargets under RLIMIT_FSIZE = N (killed by SIGXFSZ, or the
// write failing with EFBIG when the signal is ignored); the parent then starts a fresh TargetsManager.

import (
	"bytes"
	"encoding/json"
	"fmt"
	"os"
	"os/exec"
	"os/signal"
	"path/filepath"
	"reflect"
	"sort"
	"strings"
	"syscall"
	"time"

	"github.com/prometheus/client_golang/prometheus"
	"github.com/prometheus/prometheus/model/labels"

	"tkestack.io/kvass/pkg/shard"
	"tkestack.io/kvass/pkg/sidecar"
	"tkestack.io/kvass/pkg/target"
)

type StoreCase struct {
	Old    map[string][]*target.Target `json:"old"` // nil: first start, no store yet
	New    map[string][]*target.Target `json:"new"`
	HadOld bool                        `json:"hadOld"`
	Limit  int64                       `json:"limit"`
	Mode   string                      `json:"mode"` // kill | efbig | none
}

func fixedClock() {
	sidecar.VerifSetTimeNow(func() time.Time { return time.Unix(1700000000, 0).UTC() })
}

func storeChild(dir, reqFile string, limit int64, mode string) int {
	fixedClock()
	data, err := os.ReadFile(reqFile)
	if err != nil {
		return 3
	}
	req := shard.UpdateTargetsRequest{}
	if err := json.Unmarshal(data, &req.Targets); err != nil {
		return 3
	}
	tm := sidecar.NewTargetsManager(dir, prometheus.NewRegistry(), quietLog())
	if strings.HasSuffix(mode, "-load") {
		// the interruption hits the save that Load itself performs (first start on a store directory)
		if mode == "efbig-load" {
			signal.Ignore(syscall.SIGXFSZ)
		}
		lim := syscall.Rlimit{Cur: uint64(limit), Max: uint64(limit)}
		if err := syscall.Setrlimit(syscall.RLIMIT_FSIZE, &lim); err != nil {
			return 5
		}
		_ = tm.Load()
		return 0
	}
	if err := tm.Load(); err != nil {
		return 4
	}
	if mode == "efbig" {
		signal.Ignore(syscall.SIGXFSZ)
	}
	if mode != "none" {
		lim := syscall.Rlimit{Cur: uint64(limit), Max: uint64(limit)}
		if err := syscall.Setrlimit(syscall.RLIMIT_FSIZE, &lim); err != nil {
			return 5
		}
	}
	if err := tm.UpdateTargets(&req); err != nil {
		return 7 // acknowledged as failed
	}
	return 0
}

// storeHash: real target hashes are 64-bit values, most of them not representable as a float64
func storeHash(i, flavour int) uint64 {
	if i%2 == 1 {
		return 17270234181261464983 - uint64(i*7+flavour)
	}
	return uint64(1000 + i*7 + flavour)
}

// hashSetOf: the hashes of an assignment, sorted
func hashSetOf(m map[string][]*target.Target) []uint64 {
	out := []uint64{}
	for _, ts := range m {
		for _, t := range ts {
			out = append(out, t.Hash)
		}
	}
	sort.Slice(out, func(a, b int) bool { return out[a] < out[b] })
	return out
}

// hashesSurvive reports a C15 violation when a restart changed the identity of a stored target
func hashesSurvive(res *Result, stored, loaded map[string][]*target.Target, c StoreCase) {
	a, b := hashSetOf(stored), hashSetOf(loaded)
	if len(a) != len(b) {
		return
	}
	for i := range a {
		if a[i] != b[i] {
			res.ImplViol = capViol(res.ImplViol, Violation{Property: "C15", Clause: "restart", Signature: "C15/restart",
				What: fmt.Sprintf("after a sidecar restart the stored target with hash %d is loaded with hash %d: status, proxy routing and the coordinator no longer agree on its identity", a[i], b[i]),
				Case: map[string]interface{}{"case": c}}, 2)
			return
		}
	}
}

func mkTargets(r *Rng, n int, flavour int) map[string][]*target.Target {
	m := map[string][]*target.Target{}
	vals := []string{"plain", "with \"quotes\" and \\ backslash", "unié中文", "new\nline\ttab", "<>&{}[],:", ""}
	for i := 0; i < n; i++ {
		job := fmt.Sprintf("job-%d", i%3)
		t := &target.Target{
			Hash:        storeHash(i, flavour),
			Series:      int64(r.Intn(100000)),
			TotalSeries: int64(r.Intn(100000)),
			Labels: labels.FromStrings("__address__", fmt.Sprintf("10.0.%d.%d:9100", i/250, i%250), "__scheme__", "http",
				"job", job, "note", vals[r.Intn(len(vals))], "k"+fmt.Sprint(i%4), vals[(i+flavour)%len(vals)]),
		}
		if r.Chance(30) {
			t.TargetState = target.StateInTransfer
		}
		m[job] = append(m[job], t)
	}
	return m
}

type loadedInfo struct {
	Err      string
	Targets  map[string][]*target.Target
	Idle     bool
	IdleUnix int64
}

func storeLoad(dir string) loadedInfo {
	// the restart happens later than everything that was stored
	sidecar.VerifSetTimeNow(func() time.Time { return time.Unix(1700003600, 0).UTC() })
	defer fixedClock()
	tm := sidecar.NewTargetsManager(dir, prometheus.NewRegistry(), quietLog())
	// Load() re-saves what it read; work on a copy so that the observation does not change the directory
	if err := tm.Load(); err != nil {
		return loadedInfo{Err: err.Error()}
	}
	info := tm.TargetsInfo()
	li := loadedInfo{Targets: info.Targets, Idle: info.IdleAt != nil}
	if info.IdleAt != nil {
		li.IdleUnix = info.IdleAt.Unix()
	}
	return li
}

func sameTargets(a, b map[string][]*target.Target) bool {
	na := map[string][]*target.Target{}
	nb := map[string][]*target.Target{}
	for k, v := range a {
		if len(v) > 0 {
			na[k] = v
		}
	}
	for k, v := range b {
		if len(v) > 0 {
			nb[k] = v
		}
	}
	ja, _ := json.Marshal(na)
	jb, _ := json.Marshal(nb)
	return bytes.Equal(ja, jb)
}

func copyDir(src, dst string) error {
	_ = os.MkdirAll(dst, 0755)
	ents, err := os.ReadDir(src)
	if err != nil {
		return err
	}
	for _, e := range ents {
		data, err := os.ReadFile(filepath.Join(src, e.Name()))
		if err != nil {
			return err
		}
		if err := os.WriteFile(filepath.Join(dst, e.Name()), data, 0644); err != nil {
			return err
		}
	}
	return nil
}

// storeOldFormat: the store directory holds only the old-format file (targets.json, written by an
// earlier version); the first start of this version is interrupted while it saves what it loaded
// (killed / write failing at byte N); the next start has to resume the stored assignment.
func storeOldFormat(self, work string, rng *Rng, res *Result) {
	oldT := mkTargets(rng.Fork(), 5, 0)
	base := filepath.Join(work, fmt.Sprintf("store-%d-oldfmt", os.Getpid()))
	_ = os.RemoveAll(base)
	_ = os.MkdirAll(base, 0755)
	defer os.RemoveAll(base)
	data, _ := json.Marshal(oldT)
	if err := os.WriteFile(filepath.Join(base, "targets.json"), data, 0644); err != nil {
		return
	}
	reqFile := base + "-req.json"
	_ = os.WriteFile(reqFile, []byte("{}"), 0644)
	defer os.Remove(reqFile)
	// uninterrupted first start: the assignment is resumed (and re-saved in the new format)
	full := base + "-full"
	_ = copyDir(base, full)
	li := storeLoad(full)
	newBytes, _ := os.ReadFile(filepath.Join(full, "kvass-shard.json"))
	_ = os.RemoveAll(full)
	res.Evaluations++
	if li.Err != "" || !sameTargets(li.Targets, oldT) {
		// this version does not read the old format (any more): nothing to check
		res.count("oldformat_not_supported")
		return
	}
	// an upgraded shard: the old-format file stays in the directory for ever.  The last acknowledged
	// assignment is the empty one (the shard went idle); a restart resumes that, not the old file.
	up := base + "-up"
	_ = os.RemoveAll(up)
	_ = copyDir(base, up)
	_ = storeLoad(up) // first start after the upgrade: saves in the new format, keeps targets.json
	if out, err := exec.Command(self, "store-child", up, reqFile, "0", "none").CombinedOutput(); err != nil {
		res.Notes = append(res.Notes, fmt.Sprintf("oldformat: unlimited child failed: %v %s", err, out))
	} else {
		_, errOld := os.Stat(filepath.Join(up, "targets.json"))
		li := storeLoad(up)
		res.Evaluations++
		res.count("oldformat_leftover_then_empty")
		if errOld == nil {
			res.count("oldformat_leftover_file_present")
		}
		if li.Err != "" || !sameTargets(li.Targets, map[string][]*target.Target{}) || !li.Idle {
			nt := 0
			for _, ts := range li.Targets {
				nt += len(ts)
			}
			res.ImplViol = capViol(res.ImplViol, Violation{Property: "C09", Clause: "oldFormat", Signature: "C09/oldFormat/leftover",
				What: fmt.Sprintf("store directory of an upgraded shard (old-format file with 5 targets left behind); the last acknowledged assignment is the empty one; the next start resumes %d targets, idle=%v, error %q", nt, li.Idle, li.Err),
				Case: map[string]interface{}{"case": StoreCase{Old: oldT, HadOld: true, Mode: "leftover"}}}, 2)
		}
	}
	_ = os.RemoveAll(up)
	L := int64(len(newBytes))
	for _, mode := range []string{"kill-load", "efbig-load"} {
		for _, n := range []int64{0, 1, L / 2, L - 1} {
			if n < 0 {
				continue
			}
			cut := base + "-cut"
			_ = os.RemoveAll(cut)
			_ = copyDir(base, cut)
			_ = exec.Command(self, "store-child", cut, reqFile, fmt.Sprint(n), mode).Run()
			li := storeLoad(cut)
			_ = os.RemoveAll(cut)
			res.Evaluations++
			res.count("oldformat_first_start_cut")
			if li.Err != "" || !sameTargets(li.Targets, oldT) {
				nt := 0
				for _, ts := range li.Targets {
					nt += len(ts)
				}
				res.ImplViol = capViol(res.ImplViol, Violation{Property: "C09", Clause: "oldFormat", Signature: "C09/oldFormat/" + mode,
					What: fmt.Sprintf("store directory with only the old-format file (5 targets); the first start was interrupted (%s at byte %d of %d) while saving what it had loaded; the next start resumes %d targets, error %q", mode, n, L, nt, li.Err),
					Case: map[string]interface{}{"case": StoreCase{Old: oldT, HadOld: true, Mode: mode}}}, 2)
			}
		}
	}
}

func runStore(a Args) *Result {
	res := newResult("store", a.seed, a.tier)
	res.Rule = "pairs of consecutive assignments (escaping-heavy label values, empty and large sets, both states, first start without a store); for each a child process runs the real UpdateTargets under RLIMIT_FSIZE=N for a sweep of byte offsets N, once killed by SIGXFSZ and once with the write failing (EFBIG); then a fresh TargetsManager.Load(); non-trivial = the cut falls strictly inside the written bytes; distinct by (pair, offset, mode)"
	rng := NewRng(a.seed)
	fixedClock()
	work := a.workdir
	if work == "" {
		work = os.TempDir()
	}
	_ = os.MkdirAll(work, 0755)
	self, _ := os.Executable()
	nPairs, nOff := 4, 20
	if a.tier == "thorough" {
		nPairs, nOff = 14, 0 // 0 = every offset (capped)
	}
	type obsT struct {
		c                                      StoreCase
		mainKind, mainK, tmpKind, tmpK, loaded int
		lenNew                                 int
		detail                                 string
	}
	var lines []string
	var all []obsT
	distinct := 0
	if a.replay == "" && a.wants("C09") {
		storeOldFormat(self, work, rng.Fork(), res)
	}
	for pi := 0; pi < nPairs; pi++ {
		sizes := []int{0, 1, 3, 12, 60, 400, 2000}
		na := sizes[rng.Intn(len(sizes))]
		nb := sizes[rng.Intn(len(sizes))]
		if pi == 0 {
			na, nb = 3, 5
		}
		if pi == 1 {
			na, nb = 0, 2 // first start
		}
		if pi == 2 {
			na, nb = 4, 0 // to the empty assignment
		}
		oldT := mkTargets(rng.Fork(), na, 0)
		newT := mkTargets(rng.Fork(), nb, rng.Intn(2))
		if pi%5 == 3 { // same hashes, only states / series differ
			newT = mkTargets(rng.Fork(), na, 0)
		}
		hadOld := true // a first start writes the empty assignment during Load, before anything can be cut
		base := filepath.Join(work, fmt.Sprintf("store-%d-%d", os.Getpid(), pi))
		_ = os.RemoveAll(base)
		_ = os.MkdirAll(base, 0755)
		if hadOld {
			tm := sidecar.NewTargetsManager(base, prometheus.NewRegistry(), quietLog())
			_ = tm.Load()
			if err := tm.UpdateTargets(&shard.UpdateTargetsRequest{Targets: oldT}); err != nil {
				res.Notes = append(res.Notes, "prepare: "+err.Error())
				continue
			}
		}
		// round trip of the previous assignment
		if hadOld {
			probe := base + "-rt"
			_ = copyDir(base, probe)
			li := storeLoad(probe)
			_ = os.RemoveAll(probe)
			res.Evaluations++
			hashesSurvive(res, oldT, li.Targets, StoreCase{Old: oldT, HadOld: true, Mode: "none"})
			if li.Err != "" || !sameTargets(li.Targets, oldT) || li.Idle != (na == 0) || (na == 0 && li.IdleUnix != 1700000000) {
				res.ImplViol = capViol(res.ImplViol, Violation{Property: "C09", Clause: "roundtrip", Signature: "C09/roundtrip",
					What: "a restart (one hour later) does not resume the acknowledged assignment and its idle-since time: " + li.Err, Case: map[string]interface{}{"case": StoreCase{Old: oldT, HadOld: true, Mode: "none"}}}, 3)
			}
		}
		reqFile := base + "-req.json"
		reqData, _ := json.Marshal(newT)
		_ = os.WriteFile(reqFile, reqData, 0644)
		// size of what will be written: run once without a limit
		full := base + "-full"
		_ = copyDir(base, full)
		if out, err := exec.Command(self, "store-child", full, reqFile, "0", "none").CombinedOutput(); err != nil {
			res.Notes = append(res.Notes, fmt.Sprintf("unlimited child failed: %v %s", err, out))
		}
		newBytes, _ := os.ReadFile(filepath.Join(full, "kvass-shard.json"))
		oldBytes, _ := os.ReadFile(filepath.Join(base, "kvass-shard.json"))
		li := storeLoad(full)
		res.Evaluations++
		newEmpty := true
		for _, ts := range newT {
			if len(ts) > 0 {
				newEmpty = false
			}
		}
		if li.Err != "" || !sameTargets(li.Targets, newT) || li.Idle != newEmpty || (newEmpty && li.IdleUnix != 1700000000) {
			res.ImplViol = capViol(res.ImplViol, Violation{Property: "C09", Clause: "roundtrip", Signature: "C09/roundtrip",
				What: "a restart after an acknowledged update does not resume it (assignment and idle-since time): " + li.Err, Case: map[string]interface{}{"case": StoreCase{Old: oldT, New: newT, HadOld: hadOld, Mode: "none"}}}, 3)
		}
		_ = os.RemoveAll(full)
		L := len(newBytes)
		var offs []int64
		if nOff == 0 {
			step := 1
			if L > 600 {
				step = L / 600
			}
			for n := 0; n <= L+1; n += step {
				offs = append(offs, int64(n))
			}
		} else {
			set := map[int64]bool{0: true, 1: true, int64(L - 1): true, int64(L): true, int64(L + 1): true, int64(L / 2): true}
			for len(set) < nOff && len(set) < L+2 {
				set[int64(rng.Intn(L+1))] = true
			}
			for k := range set {
				if k >= 0 {
					offs = append(offs, k)
				}
			}
			sort.Slice(offs, func(i, j int) bool { return offs[i] < offs[j] })
		}
		// a temp file left behind by an earlier interrupted save, longer than what is written now
		leftover := pi%3 == 1
		junk := bytes.Repeat([]byte("#"), L+200)
		for _, n := range offs {
			for _, mode := range []string{"kill", "efbig"} {
				d := fmt.Sprintf("%s-%d-%s", base, n, mode)
				_ = copyDir(base, d)
				if leftover {
					_ = os.WriteFile(filepath.Join(d, "kvass-shard.json.tmp"), junk, 0644)
				}
				cmd := exec.Command(self, "store-child", d, reqFile, fmt.Sprint(n), mode)
				_ = cmd.Run()
				mainB, errM := os.ReadFile(filepath.Join(d, "kvass-shard.json"))
				tmpB, errT := os.ReadFile(filepath.Join(d, "kvass-shard.json.tmp"))
				classify := func(b []byte, err error) (int, int) {
					switch {
					case err != nil:
						return 0, 0
					case hadOld && bytes.Equal(b, oldBytes):
						return 1, 0
					case bytes.Equal(b, newBytes):
						return 2, 0
					case bytes.HasPrefix(newBytes, b):
						return 3, len(b)
					case leftover && bytes.Equal(b, junk):
						return 5, 0
					}
					return 4, len(b)
				}
				o := obsT{c: StoreCase{HadOld: hadOld, Limit: n, Mode: mode}, lenNew: L}
				o.mainKind, o.mainK = classify(mainB, errM)
				o.tmpKind, o.tmpK = classify(tmpB, errT)
				probe := d + "-probe"
				_ = copyDir(d, probe)
				li := storeLoad(probe)
				_ = os.RemoveAll(probe)
				switch {
				case li.Err != "":
					o.loaded = 3
					o.detail = li.Err
				case hadOld && sameTargets(li.Targets, oldT) && (!sameTargets(oldT, newT) || o.mainKind == 1):
					o.loaded = 1
				case sameTargets(li.Targets, newT):
					o.loaded = 2
				case !hadOld && len(li.Targets) == 0:
					o.loaded = 0
				default:
					o.loaded = 4
				}
				if small := na+nb <= 20; small {
					o.c.Old, o.c.New = oldT, newT
				}
				_ = os.RemoveAll(d)
				all = append(all, o)
				w := &ints{}
				w.add(int64(len(all)-1), int64(L))
				w.bool(hadOld)
				w.bool(leftover)
				w.add(int64(o.mainKind), int64(o.mainK), int64(o.tmpKind), int64(o.tmpK), int64(o.loaded))
				lines = append(lines, w.String())
				res.Evaluations++
				if n > 0 && n < int64(L) {
					distinct++
				}
			}
		}
		_ = os.RemoveAll(base)
		_ = os.Remove(reqFile)
		res.count(fmt.Sprintf("pair_old%d_new%d_bytes%d", na, nb, L))
		if leftover {
			res.count("pairs_with_leftover_temp_file")
		}
	}
	res.Distinct = distinct
	answers, err := runDriver(a.driver, "store", lines)
	if err != nil {
		res.Mismatch = append(res.Mismatch, Violation{Property: "C09", Clause: "driver", Signature: "driver-failure", What: err.Error()})
		return res
	}
	for i, ans := range answers {
		o := all[i]
		full := map[string]interface{}{"case": o.c, "observed": map[string]interface{}{"storeFile": []int{o.mainKind, o.mainK}, "tempFile": []int{o.tmpKind, o.tmpK}, "loaded": o.loaded, "loadError": o.detail, "newBytes": o.lenNew}}
		if !strings.HasPrefix(ans, "case ") {
			res.Mismatch = append(res.Mismatch, Violation{Property: "C09", Clause: "bad-op", Signature: "bad-op", What: ans, Case: full, Line: lines[i]})
			continue
		}
		f := fieldsAfter(ans, "case", "tags")
		if idx := strings.Index(ans, " tags "); idx >= 0 {
			res.count("tag_" + strings.TrimSpace(ans[idx+6:]))
		}
		res.Traces++
		if i%41 == 0 {
			res.addSample(full)
		}
		if f["match"] != "1" {
			res.Mismatch = capViol(res.Mismatch, Violation{Property: "C09", Clause: "correspondence", Signature: "store/nomatch",
				What: "the directory left by the real save is not a crash state of the extracted protocol, or Load differs from the model (" + ans + ")", Case: full, Line: lines[i]}, 3)
		}
		if f["impl"] != "ok" {
			res.ImplViol = capViol(res.ImplViol, Violation{Property: "C09", Clause: f["impl"], Signature: "C09/" + f["impl"],
				What: fmt.Sprintf("after stopping the save at byte %d (%s) the next start does not resume the previous or the new assignment: %s", o.c.Limit, o.c.Mode, o.detail), Case: full, Line: lines[i]}, 3)
		}
		if f["model"] != "ok" {
			res.ModelViol = capViol(res.ModelViol, Violation{Property: "C09", Clause: f["model"], Signature: "C09/" + f["model"],
				What: "the extracted save protocol has a crash state that loads as neither old nor new", Case: full, Line: lines[i]}, 3)
		}
	}
	_ = reflect.DeepEqual
	return res
}
