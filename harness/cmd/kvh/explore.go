package main

// Engine "explore": the real Explore with k workers; probes hit an in-memory transport that blocks
// each probe until the harness releases it with a chosen result (C20).

import (
	"context"
	"encoding/json"
	"fmt"
	"io"
	"net/http"
	"os"
	"sort"
	"strconv"
	"strings"
	"sync"
	"time"

	"github.com/prometheus/client_golang/prometheus"
	"github.com/prometheus/prometheus/model/labels"

	"tkestack.io/kvass/pkg/discovery"
	"tkestack.io/kvass/pkg/explore"
	"tkestack.io/kvass/pkg/prom"
	"tkestack.io/kvass/pkg/scrape"
	"tkestack.io/kvass/pkg/target"
)

type EOp struct {
	Kind    string   `json:"kind"` // get | update | prune | release | sleep
	Hash    uint64   `json:"h,omitempty"`
	Set     []uint64 `json:"set,omitempty"`
	Jobs    []int    `json:"jobs,omitempty"`
	Ok      bool     `json:"ok,omitempty"`
	Scraped int64    `json:"scraped,omitempty"`
	Total   int64    `json:"total,omitempty"`
	Ms      int      `json:"ms,omitempty"`
	Reconf  bool     `json:"reconfigure,omitempty"` // prune: the kept jobs get new scrape settings (new job objects, new clients)
}
type ECase struct {
	Workers int   `json:"workers"`
	Ops     []EOp `json:"ops"`
}

type eEvent struct {
	kind    int // 0 get 1 update 2 prune 3 start 4 finish
	h       uint64
	set     []uint64
	probe   int
	ok      bool
	scraped int64
	total   int64
}

type blockedProbe struct {
	num  int
	hash uint64
	ch   chan EOp
}

type exploreRig struct {
	mu      sync.Mutex
	log     []eEvent
	blocked []*blockedProbe
	nProbes int
	drain   bool
	lastEv  time.Time
	curGen  int    // generation of the job objects the scrape manager hands out now
	stale   string // a probe that was sent through a client of an earlier generation
	reconf  time.Time
}

// genRT is the client transport of one generation of job objects
type genRT struct {
	rig *exploreRig
	gen int
}

func (g *genRT) RoundTrip(req *http.Request) (*http.Response, error) {
	g.rig.mu.Lock()
	// a probe that fetched its job just before the reload may still arrive with the old client; one that
	// starts three retry intervals later must not
	if g.gen != g.rig.curGen && g.rig.stale == "" && time.Since(g.rig.reconf) > 36*time.Millisecond {
		g.rig.stale = fmt.Sprintf("a probe of %s was sent with the client and settings of the job as configured %d reload(s) ago", req.URL.Host, g.rig.curGen-g.gen)
	}
	g.rig.mu.Unlock()
	return g.rig.RoundTrip(req)
}

func (r *exploreRig) add(e eEvent) {
	r.log = append(r.log, e)
	r.lastEv = time.Now()
}

func (r *exploreRig) RoundTrip(req *http.Request) (*http.Response, error) {
	host := req.URL.Hostname() // 10.2.0.<h>
	p := strings.Split(host, ".")
	h, _ := strconv.Atoi(p[len(p)-1])
	r.mu.Lock()
	num := r.nProbes
	r.nProbes++
	r.add(eEvent{kind: 3, probe: num, h: uint64(h)})
	var res EOp
	if r.drain {
		res = EOp{Ok: true, Scraped: 3, Total: 5}
		r.add(eEvent{kind: 4, probe: num, ok: true, scraped: 3, total: 5})
		r.mu.Unlock()
	} else {
		bp := &blockedProbe{num: num, hash: uint64(h), ch: make(chan EOp, 1)}
		r.blocked = append(r.blocked, bp)
		r.mu.Unlock()
		res = <-bp.ch
	}
	if !res.Ok {
		return nil, fmt.Errorf("scripted probe failure")
	}
	return &http.Response{StatusCode: 200, Status: "200 OK", Header: http.Header{"Content-Type": []string{"text/plain"}},
		Body: io.NopCloser(strings.NewReader(expoPayload(res.Scraped, res.Total, 0, ""))), Request: req}, nil
}

func jobOfHash(h uint64) int { return int(h % 2) }

func runExploreCase(c *ECase) (line string, viol []Violation, info map[string]interface{}, err error) {
	lg := quietLog()
	cfgm := prom.NewConfigManager()
	sm := scrape.New(false, lg)
	cfgm.AddReloadCallbacks(sm.ApplyConfig)
	if err := cfgm.ReloadFromRaw([]byte(sidecarCfg)); err != nil {
		return "", nil, nil, err
	}
	rig := &exploreRig{lastEv: time.Now()}
	for _, j := range []string{"job0", "job1"} {
		sm.GetJob(j).Cli = &http.Client{Transport: &genRT{rig, 0}}
	}
	exp := explore.New(sm, prometheus.NewRegistry(), lg)
	const interval = 12 * time.Millisecond
	exp.VerifSetRetryInterval(interval)
	ctx, cancel := context.WithCancel(context.Background())
	defer cancel()
	go func() { _ = exp.Run(ctx, c.Workers) }()

	listed := map[uint64]bool{}
	inc := map[uint64]int{}        // incarnation number of a hash
	asked := map[uint64]bool{}     // Get called in the current incarnation
	succeeded := map[uint64]bool{} // a probe of the current incarnation succeeded
	okCounts := map[uint64][2]int64{}
	probeInc := map[int]int{} // probe number -> incarnation at start
	probeHash := map[int]uint64{}
	inflight := map[uint64][]int{}
	mkTargets := func(set []uint64) map[string][]*discovery.SDTargets {
		m := map[string][]*discovery.SDTargets{}
		for _, h := range set {
			job := fmt.Sprintf("job%d", jobOfHash(h))
			m[job] = append(m[job], &discovery.SDTargets{Job: job, ShardTarget: &target.Target{Hash: h,
				Labels: labels.FromStrings("__address__", fmt.Sprintf("10.2.0.%d:80", h), "__scheme__", "http", "__metrics_path__", "/metrics")}})
		}
		return m
	}
	addViol := func(clause, sig, what string) {
		viol = append(viol, Violation{Property: "C20", Clause: clause, Signature: sig, What: what})
	}
	// a hash that disappeared and was discovered again can still have a queued / running probe of its old entry
	sigFor := func(clause string, h uint64) string {
		if inc[h] > 1 {
			return "C20/" + clause + "/rediscovered"
		}
		return "C20/" + clause
	}
	// process log entries produced by workers since `from`: monitors on starts
	seen := 0
	scan := func() {
		for ; seen < len(rig.log); seen++ {
			e := rig.log[seen]
			switch e.kind {
			case 3:
				probeInc[e.probe] = inc[e.h]
				probeHash[e.probe] = e.h
				for _, other := range inflight[e.h] {
					addViol("oneInFlight", sigFor("oneInFlight", e.h), fmt.Sprintf("two probes of target %d in flight at once (probes %d and %d; the target was discovered %d time(s))", e.h, other, e.probe, inc[e.h]))
				}
				inflight[e.h] = append(inflight[e.h], e.probe)
				if listed[e.h] && succeeded[e.h] && probeInc[e.probe] == inc[e.h] {
					addViol("afterSuccess", sigFor("afterSuccess", e.h), fmt.Sprintf("target %d probed again (probe %d) after a successful probe", e.h, e.probe))
				}
				if listed[e.h] && !asked[e.h] {
					addViol("beforeAsked", sigFor("beforeAsked", e.h), fmt.Sprintf("target %d probed (probe %d) before it was first asked for", e.h, e.probe))
				}
			case 4:
				h := probeHash[e.probe]
				l := inflight[h][:0]
				for _, p := range inflight[h] {
					if p != e.probe {
						l = append(l, p)
					}
				}
				inflight[h] = l
				if e.ok && probeInc[e.probe] == inc[h] && listed[h] {
					succeeded[h] = true
					okCounts[h] = [2]int64{e.scraped, e.total}
				}
			}
		}
	}
	for _, op := range c.Ops {
		time.Sleep(time.Duration(200+op.Ms*1000) * time.Microsecond)
		rig.mu.Lock()
		scan()
		switch op.Kind {
		case "get":
			rig.add(eEvent{kind: 0, h: op.Hash})
			if listed[op.Hash] {
				asked[op.Hash] = true
			}
			rig.mu.Unlock()
			exp.Get(op.Hash)
		case "update":
			rig.add(eEvent{kind: 1, set: op.Set})
			now := map[uint64]bool{}
			for _, h := range op.Set {
				now[h] = true
				if !listed[h] {
					inc[h]++
					asked[h], succeeded[h] = false, false
				}
			}
			listed = now
			rig.mu.Unlock()
			exp.UpdateTargets(mkTargets(op.Set))
		case "prune":
			keepJob := map[int]bool{}
			for _, j := range op.Jobs {
				keepJob[j] = true
			}
			keep := []uint64{}
			for h := range listed {
				if keepJob[jobOfHash(h)] {
					keep = append(keep, h)
				} else {
					delete(listed, h)
				}
			}
			sort.Slice(keep, func(i, j int) bool { return keep[i] < keep[j] })
			rig.add(eEvent{kind: 2, set: keep})
			rig.mu.Unlock()
			var b strings.Builder
			b.WriteString("global:\n  scrape_interval: 15s\nscrape_configs:\n")
			for _, j := range op.Jobs {
				fmt.Fprintf(&b, "- job_name: job%d\n", j)
			}
			if len(op.Jobs) == 0 {
				b.Reset()
				b.WriteString("global:\n  scrape_interval: 15s\nscrape_configs: []\n")
			}
			if op.Reconf {
				// same jobs, other scrape settings: the scrape manager builds new job objects
				b.Reset()
				b.WriteString(strings.Replace(sidecarCfg, "scrape_timeout: 2s", "scrape_timeout: 3s", -1))
			}
			cm2 := prom.NewConfigManager()
			if err := cm2.ReloadFromRaw([]byte(b.String())); err != nil {
				return "", nil, nil, err
			}
			if op.Reconf {
				_ = sm.ApplyConfig(cm2.ConfigInfo())
				rig.mu.Lock()
				rig.curGen++
				rig.reconf = time.Now()
				g := rig.curGen
				rig.mu.Unlock()
				for _, j := range []string{"job0", "job1"} {
					if ji := sm.GetJob(j); ji != nil {
						ji.Cli = &http.Client{Transport: &genRT{rig, g}}
					}
				}
			}
			_ = exp.ApplyConfig(cm2.ConfigInfo())
		case "release":
			failed := uint64(0)
			checkFailed := false
			if len(rig.blocked) > 0 {
				bp := rig.blocked[0]
				rig.blocked = rig.blocked[1:]
				rig.add(eEvent{kind: 4, probe: bp.num, ok: op.Ok, scraped: op.Scraped, total: op.Total})
				bp.ch <- op
				// a failed probe of a listed, asked, not yet successfully probed target (current incarnation, no
				// other probe of it in flight): what the explorer reports for it must not look like a success
				if !op.Ok && listed[bp.hash] && asked[bp.hash] && !succeeded[bp.hash] && probeInc[bp.num] == inc[bp.hash] && len(inflight[bp.hash]) <= 1 {
					failed, checkFailed = bp.hash, true
				}
			}
			rig.mu.Unlock()
			if checkFailed {
				for w := 0; w < 8; w++ {
					time.Sleep(time.Millisecond)
					// the target has been asked for already, so this Get does not start anything
					if st := exp.Get(failed); st == nil || st.Health != "unknown" {
						break
					}
				}
				rig.mu.Lock()
				scan()
				stillFailed := !succeeded[failed] && listed[failed]
				rig.mu.Unlock()
				if stillFailed {
					if st := exp.Get(failed); st != nil && st.Health == "up" {
						addViol("failedProbeLooksHealthy", "C20/failedProbeLooksHealthy", fmt.Sprintf("the only probe of target %d so far failed, but the explorer reports health %q, error %q, series %d/%d for it: the coordinator would assign it with that estimate before any probe has succeeded", failed, st.Health, st.LastError, st.Series, st.TotalSeries))
					}
				}
			}
		default:
			rig.mu.Unlock()
		}
	}
	// drain: everything still running or still to come succeeds; then the system must become quiet
	rig.mu.Lock()
	scan()
	rig.drain = true
	for _, bp := range rig.blocked {
		rig.add(eEvent{kind: 4, probe: bp.num, ok: true, scraped: 3, total: 5})
		bp.ch <- EOp{Ok: true, Scraped: 3, Total: 5}
	}
	rig.blocked = nil
	rig.mu.Unlock()
	deadline := time.Now().Add(50 * interval)
	for {
		time.Sleep(interval)
		rig.mu.Lock()
		scan()
		quiet := time.Since(rig.lastEv) > 6*interval
		rig.mu.Unlock()
		if quiet || time.Now().After(deadline) {
			break
		}
	}
	rig.mu.Lock()
	scan()
	evs := append([]eEvent{}, rig.log...)
	rig.mu.Unlock()
	if rig.stale != "" {
		addViol("staleJob", "C20/staleJob", rig.stale)
	}
	// liveness + estimate: every listed target that was asked for now has the estimate of its successful probe
	for h := range listed {
		if !asked[h] {
			continue
		}
		if !succeeded[h] {
			addViol("eventually", "C20/eventually", fmt.Sprintf("target %d was asked for and stayed discovered, every later probe would succeed, but none was made within 50 retry intervals", h))
			continue
		}
		st := exp.Get(h)
		if st == nil || st.Health != "up" || st.Series != okCounts[h][0] || st.TotalSeries != okCounts[h][1] {
			addViol("estimate", sigFor("estimate", h), fmt.Sprintf("estimate of target %d is %+v, the successful probe delivered %v", h, st, okCounts[h]))
		}
	}
	w := &ints{}
	w.add(int64(len(evs)))
	for _, e := range evs {
		switch e.kind {
		case 0:
			w.add(0, int64(e.h))
		case 1, 2:
			w.add(int64(e.kind), int64(len(e.set)))
			for _, h := range e.set {
				w.add(int64(h))
			}
		case 3:
			w.add(3, int64(e.probe), int64(e.h))
		case 4:
			w.add(4, int64(e.probe))
			w.bool(e.ok)
			w.add(e.scraped, e.total)
		}
	}
	info = map[string]interface{}{"events": len(evs), "probes": rig.nProbes}
	return w.String(), viol, info, nil
}

func genExploreCase(r *Rng) *ECase {
	c := &ECase{Workers: 1 + r.Intn(3)}
	univ := []uint64{1, 2, 3, 4}
	n := 6 + r.Intn(22)
	cur := []uint64{}
	for i := 0; i < n; i++ {
		switch k := r.Intn(20); {
		case k < 3 || i == 0:
			set := []uint64{}
			for _, h := range univ {
				if r.Chance(65) {
					set = append(set, h)
				}
			}
			cur = set
			c.Ops = append(c.Ops, EOp{Kind: "update", Set: set})
		case k < 4:
			js := []int{}
			for j := 0; j < 2; j++ {
				if r.Chance(70) {
					js = append(js, j)
				}
			}
			op := EOp{Kind: "prune", Jobs: js}
			if r.Chance(40) {
				op.Jobs, op.Reconf = []int{0, 1}, true
			}
			c.Ops = append(c.Ops, op)
		case k < 10:
			h := univ[r.Intn(len(univ))]
			if len(cur) > 0 && r.Chance(80) {
				h = cur[r.Intn(len(cur))]
			}
			c.Ops = append(c.Ops, EOp{Kind: "get", Hash: h})
		case k < 17:
			op := EOp{Kind: "release", Ok: r.Chance(45)}
			if op.Ok {
				op.Scraped = r.PickI(0, 1, 4, 9)
				op.Total = op.Scraped + r.PickI(0, 3)
			}
			c.Ops = append(c.Ops, op)
			if !op.Ok && len(cur) > 0 && r.Chance(35) {
				// while the retry sleeps: the target disappears and is discovered again
				h := cur[r.Intn(len(cur))]
				without := []uint64{}
				for _, x := range cur {
					if x != h {
						without = append(without, x)
					}
				}
				c.Ops = append(c.Ops, EOp{Kind: "update", Set: without}, EOp{Kind: "update", Set: cur})
				if r.Chance(70) {
					c.Ops = append(c.Ops, EOp{Kind: "get", Hash: h})
				}
			}
		default:
			c.Ops = append(c.Ops, EOp{Kind: "sleep", Ms: int(r.PickI(3, 14, 30))})
		}
	}
	return c
}

// countingRT answers every probe at once and counts the probes per target
type countingRT struct {
	mu sync.Mutex
	n  map[string]int
}

func (c *countingRT) RoundTrip(req *http.Request) (*http.Response, error) {
	c.mu.Lock()
	c.n[req.URL.Host]++
	c.mu.Unlock()
	return &http.Response{StatusCode: 200, Status: "200 OK", Header: http.Header{"Content-Type": []string{"text/plain"}},
		Body: io.NopCloser(strings.NewReader(expoPayload(3, 5, 0, ""))), Request: req}, nil
}

// exploreFlood: more undiscovered targets are asked for at once than the explorer's queue holds;
// every one of them must still be probed exactly once and end up with its estimate
func exploreFlood(n int) *Violation {
	lg := quietLog()
	cfgm := prom.NewConfigManager()
	sm := scrape.New(false, lg)
	cfgm.AddReloadCallbacks(sm.ApplyConfig)
	if err := cfgm.ReloadFromRaw([]byte(sidecarCfg)); err != nil {
		return &Violation{Property: "C20", Clause: "harness", Signature: "harness-error", What: err.Error()}
	}
	rt := &countingRT{n: map[string]int{}}
	for _, j := range []string{"job0", "job1"} {
		sm.GetJob(j).Cli = &http.Client{Transport: rt}
	}
	exp := explore.New(sm, prometheus.NewRegistry(), lg)
	ctx, cancel := context.WithCancel(context.Background())
	defer cancel()
	go func() { _ = exp.Run(ctx, 16) }()
	m := map[string][]*discovery.SDTargets{}
	for h := 1; h <= n; h++ {
		job := fmt.Sprintf("job%d", h%2)
		m[job] = append(m[job], &discovery.SDTargets{Job: job, ShardTarget: &target.Target{Hash: uint64(h),
			Labels: labels.FromStrings("__address__", fmt.Sprintf("h%d.flood:80", h), "__scheme__", "http", "__metrics_path__", "/metrics")}})
	}
	exp.UpdateTargets(m)
	deadline := time.Now().Add(60 * time.Second)
	missing := 0
	for round := 0; ; round++ {
		missing = 0
		for h := 1; h <= n; h++ {
			st := exp.Get(uint64(h))
			if st == nil || st.Health != "up" {
				missing++
			}
		}
		if missing == 0 || time.Now().After(deadline) {
			break
		}
		time.Sleep(100 * time.Millisecond)
	}
	rt.mu.Lock()
	defer rt.mu.Unlock()
	twice := 0
	for _, k := range rt.n {
		if k > 1 {
			twice++
		}
	}
	if missing > 0 || twice > 0 || len(rt.n) != n {
		return &Violation{Property: "C20", Clause: "flood", Signature: "C20/flood",
			What: fmt.Sprintf("%d targets asked for at once (more than the explorer's queue holds): %d never got their estimate although asked for repeatedly, %d were probed more than once, %d distinct targets were probed", n, missing, twice, len(rt.n)),
			Case: map[string]interface{}{"flood": n}}
	}
	return nil
}

// exploreJobUnavailable: a job is in the configuration but the scrape manager could not build its
// client (unreadable ca_file), so probes of its targets fail before any request is sent; the
// explorer keeps the job's targets.  A later reload repairs the job.  The asked-for target has to
// be probed then ("a failed probe is retried after the retry interval until one succeeds or the
// target disappears from discovery").
func exploreJobUnavailable() (*Violation, bool) {
	lg := quietLog()
	const broken = `
global:
  scrape_interval: 15s
scrape_configs:
- job_name: job0
  scrape_timeout: 2s
- job_name: job1
  scrape_timeout: 2s
  scheme: https
  tls_config:
    ca_file: /nonexistent/kvass-verif/ca.pem
`
	harness := func(err error) *Violation {
		return &Violation{Property: "C20", Clause: "harness", Signature: "harness-error", What: err.Error()}
	}
	cm1 := prom.NewConfigManager()
	if err := cm1.ReloadFromRaw([]byte(broken)); err != nil {
		// the configuration layer refuses such a file: the scenario cannot arise
		return nil, false
	}
	sm := scrape.New(false, lg)
	_ = sm.ApplyConfig(cm1.ConfigInfo())
	if sm.GetJob("job1") != nil || sm.GetJob("job0") == nil {
		return nil, false
	}
	rt := &countingRT{n: map[string]int{}}
	sm.GetJob("job0").Cli = &http.Client{Transport: rt}
	exp := explore.New(sm, prometheus.NewRegistry(), lg)
	const interval = 12 * time.Millisecond
	exp.VerifSetRetryInterval(interval)
	_ = exp.ApplyConfig(cm1.ConfigInfo())
	ctx, cancel := context.WithCancel(context.Background())
	defer cancel()
	go func() { _ = exp.Run(ctx, 2) }()
	m := map[string][]*discovery.SDTargets{}
	for _, h := range []uint64{2, 3} {
		job := fmt.Sprintf("job%d", h%2)
		m[job] = append(m[job], &discovery.SDTargets{Job: job, ShardTarget: &target.Target{Hash: h,
			Labels: labels.FromStrings("__address__", fmt.Sprintf("h%d.jobgone:80", h), "__scheme__", "http", "__metrics_path__", "/metrics")}})
	}
	exp.UpdateTargets(m)
	exp.Get(2)
	exp.Get(3)
	time.Sleep(5 * interval)
	// the reload that repairs job1
	cm2 := prom.NewConfigManager()
	if err := cm2.ReloadFromRaw([]byte(sidecarCfg)); err != nil {
		return harness(err), true
	}
	_ = sm.ApplyConfig(cm2.ConfigInfo())
	for _, j := range []string{"job0", "job1"} {
		if ji := sm.GetJob(j); ji != nil {
			ji.Cli = &http.Client{Transport: rt}
		}
	}
	_ = exp.ApplyConfig(cm2.ConfigInfo())
	deadline := time.Now().Add(60 * interval)
	ok := false
	for !ok && time.Now().Before(deadline) {
		time.Sleep(interval)
		st := exp.Get(3)
		ok = st != nil && st.Health == "up"
	}
	if !ok {
		st := exp.Get(3)
		return &Violation{Property: "C20", Clause: "eventually", Signature: "C20/eventually/jobUnavailable",
			What: fmt.Sprintf("target 3 of job1 was asked for while the scrape manager had no client for job1 (unreadable ca_file); the job was repaired by a reload and the target stayed discovered, but no probe succeeded within 60 retry intervals; estimate now %+v", st),
			Case: map[string]interface{}{"scenario": "jobUnavailable"}}, true
	}
	return nil, true
}

func runExplore(a Args) *Result {
	res := newResult("explore", a.seed, a.tier)
	res.Rule = "scripted interleavings of Get / discovery updates / reloads with probes of 1-3 workers that block in an in-memory transport until released with a chosen result (failure patterns before the first success), retry interval 12 ms; the linearised event log is validated against Explore.step with timers firing at any moment; non-trivial = at least one failed probe and one removal; distinct by event log"
	rng := NewRng(a.seed)
	n := 40
	if a.tier == "thorough" {
		n = 800
	}
	if a.n > 0 {
		n = a.n
	}
	if a.replay == "" && a.wants("C20") {
		if v := exploreFlood(10300); v != nil {
			res.ImplViol = append(res.ImplViol, *v)
		}
		res.Evaluations++
		res.count("flood_case_10300_targets")
		v, exercised := exploreJobUnavailable()
		if v != nil {
			res.ImplViol = append(res.ImplViol, *v)
		}
		res.Evaluations++
		if exercised {
			res.count("job_unavailable_scenario_exercised")
		} else {
			res.count("job_unavailable_scenario_not_applicable")
		}
	}
	type item struct {
		c    *ECase
		info map[string]interface{}
	}
	var items []item
	var lines []string
	var cases []*ECase
	if a.corpus != "" {
		files, _ := os.ReadDir(a.corpus)
		for _, f := range files {
			data, err := os.ReadFile(a.corpus + "/" + f.Name())
			if err != nil {
				continue
			}
			var wrap struct {
				Case *ECase `json:"case"`
			}
			if json.Unmarshal(data, &wrap) == nil && wrap.Case != nil && wrap.Case.Workers > 0 {
				cases = append(cases, wrap.Case)
			}
		}
	}
	for i := 0; i < n; i++ {
		cases = append(cases, genExploreCase(rng.Fork()))
	}
	for _, c := range cases {
		line, viol, info, err := runExploreCase(c)
		if err != nil {
			res.Notes = append(res.Notes, "harness: "+err.Error())
			continue
		}
		res.Evaluations += len(c.Ops)
		for _, v := range viol {
			v.Case = map[string]interface{}{"case": c, "observed": info}
			res.ImplViol = capViol(res.ImplViol, v, 2)
		}
		items = append(items, item{c, info})
		lines = append(lines, fmt.Sprintf("%d %s", len(items)-1, line))
	}
	answers, err := runDriver(a.driver, "explore", lines)
	if err != nil {
		res.Mismatch = append(res.Mismatch, Violation{Property: "C20", Clause: "driver", Signature: "driver-failure", What: err.Error()})
		return res
	}
	distinct := map[string]bool{}
	for i, ans := range answers {
		full := map[string]interface{}{"case": items[i].c, "observed": items[i].info}
		if !strings.HasPrefix(ans, "case ") {
			res.Mismatch = append(res.Mismatch, Violation{Property: "C20", Clause: "bad-op", Signature: "bad-op", What: ans, Case: full, Line: lines[i]})
			continue
		}
		f := fieldsAfter(ans, "case", "impl")
		impl := fieldsAfter(ans, "impl")
		res.Traces++
		hasFail, hasRemoval := strings.Contains(lines[i], " 4 "), false
		for _, op := range items[i].c.Ops {
			if op.Kind == "prune" || op.Kind == "update" {
				hasRemoval = true
			}
		}
		if hasFail && hasRemoval {
			distinct[lines[i][strings.Index(lines[i], " ")+1:]] = true
		}
		res.count("workers_" + fmt.Sprint(items[i].c.Workers))
		if i < 2 {
			res.addSample(full)
		}
		if f["match"] != "1" {
			res.Mismatch = capViol(res.Mismatch, Violation{Property: "C20", Clause: "correspondence", Signature: "explore/nomatch",
				What: "the observed event log is not a run of Explore.step (first impossible event: " + strings.TrimPrefix(f["match"], "0@") + ")", Case: full, Line: lines[i]}, 3)
		}
		if v := impl["C20"]; v != "ok" {
			res.ImplViol = capViol(res.ImplViol, Violation{Property: "C20", Clause: "trace", Signature: "C20/trace",
				What: "the observed probes are not a run of the reference semantics (probe once asked, retry while that target stays listed, one token per entry): first impossible event " + strings.TrimPrefix(v, "trace@"), Case: full, Line: lines[i]}, 3)
		}
	}
	res.Distinct = len(distinct)
	return res
}
