package main

import (
	"flag"
	"fmt"
	"os"
	"strings"
)

type Args struct {
	engine  string
	seed    uint64
	tier    string
	props   []string
	driver  string
	out     string
	corpus  string
	replay  string
	n       int
	workdir string
}

func main() {
	if len(os.Args) < 2 {
		fmt.Fprintln(os.Stderr, "usage: kvh <engine> [flags]")
		os.Exit(2)
	}
	if os.Args[1] == "store-child" && len(os.Args) == 6 {
		var lim int64
		fmt.Sscan(os.Args[4], &lim)
		os.Exit(storeChild(os.Args[2], os.Args[3], lim, os.Args[5]))
	}
	if os.Args[1] == "cfghash-child" && len(os.Args) == 3 {
		os.Exit(cfgHashChild(os.Args[2]))
	}
	if os.Args[1] == "hash-child" && len(os.Args) == 3 {
		os.Exit(hashChild(os.Args[2]))
	}
	a := Args{engine: os.Args[1]}
	fs := flag.NewFlagSet("kvh", flag.ExitOnError)
	fs.Uint64Var(&a.seed, "seed", 1, "PRNG seed")
	fs.StringVar(&a.tier, "tier", "quick", "quick|thorough")
	props := fs.String("props", "", "comma separated property ids")
	fs.StringVar(&a.driver, "driver", "/verif/lean/.lake/build/bin/driver", "Lean driver executable")
	fs.StringVar(&a.out, "out", "", "result json")
	fs.StringVar(&a.corpus, "corpus", "", "corpus directory (replayed first)")
	fs.StringVar(&a.replay, "replay", "", "replay one case file")
	fs.IntVar(&a.n, "n", 0, "number of cases (0 = tier default)")
	fs.StringVar(&a.workdir, "work", "", "scratch directory")
	_ = fs.Parse(os.Args[2:])
	if *props != "" {
		a.props = strings.Split(*props, ",")
	}
	var res *Result
	switch a.engine {
	case "coord":
		res = runCoord(a)
	case "k8s":
		res = runK8s(a)
	case "sidecar":
		res = runSidecar(a)
	case "store":
		res = runStore(a)
	case "proxy":
		res = runProxy(a)
	case "disc":
		res = runDisc(a)
	case "explore":
		res = runExplore(a)
	case "replicas":
		res = runReplicasEngine(a)
	case "labels":
		res = runLabelsHash(a)
	case "cfghash":
		res = runCfgHash(a)
	case "inject":
		res = runInject(a)
	case "loop":
		res = runLoop(a)
	case "chain":
		res = runChainEngine(a)
	default:
		fmt.Fprintln(os.Stderr, "unknown engine", a.engine)
		os.Exit(2)
	}
	if a.out != "" {
		res.write(a.out)
	}
	fmt.Printf("engine=%s evaluations=%d impl_violations=%d model_violations=%d mismatches=%d\n",
		res.Engine, res.Evaluations, len(res.ImplViol), len(res.ModelViol), len(res.Mismatch))
}

func (a Args) wants(p string) bool {
	if len(a.props) == 0 {
		return true
	}
	for _, x := range a.props {
		if x == p {
			return true
		}
	}
	return false
}
