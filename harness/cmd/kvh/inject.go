package main

// Engine "inject" (C11): the real Injector writes a Prometheus configuration for random configs x
// assignments; the file is loaded back with config.LoadFile and compared field-wise with the
// original; the job rewrite is matched against Inject.inject on abstract job records.

import (
	"encoding/json"
	"fmt"
	"hash/fnv"
	"os"
	"path/filepath"
	"reflect"
	"sort"
	"strings"

	"github.com/go-kit/log"
	"github.com/prometheus/client_golang/prometheus"
	"github.com/prometheus/common/model"
	"github.com/prometheus/prometheus/config"
	"github.com/prometheus/prometheus/discovery"
	_ "github.com/prometheus/prometheus/discovery/file" // registers file_sd_configs
	"github.com/prometheus/prometheus/model/labels"
	"gopkg.in/yaml.v2"

	"tkestack.io/kvass/pkg/prom"
	"tkestack.io/kvass/pkg/sidecar"
	"tkestack.io/kvass/pkg/target"
)

type ICase struct {
	Config      string               `json:"config"`
	Assign      map[string][]ITarget `json:"assign"`
	Proxy       string               `json:"proxy"`
	SelfMonitor bool                 `json:"selfMonitor"`
	// a configuration the same injector was given (and wrote a file for) before this one: a reload
	Before string `json:"before,omitempty"`
}
type ITarget struct {
	Hash   uint64            `json:"hash"`
	Labels map[string]string `json:"labels"`
}

func digest(v interface{}) int64 {
	b, _ := yaml.Marshal(v)
	h := fnv.New32a()
	_, _ = h.Write(b)
	return int64(h.Sum32())
}

var secretVals = []string{"s3cr3t", "tok-en_1", "p: w #x", "a'b\"c", "<secret>x", "plain"}

func genInjectCase(r *Rng) *ICase {
	var b strings.Builder
	sec := func() string { return secretVals[r.Intn(len(secretVals))] }
	q := func(s string) string { return "'" + strings.ReplaceAll(s, "'", "''") + "'" }
	auth := func(ind string, allowTLS bool) {
		switch r.Intn(6) {
		case 0:
			fmt.Fprintf(&b, "%sbasic_auth:\n%s  username: u\n%s  password: %s\n", ind, ind, ind, q(sec()))
		case 1:
			fmt.Fprintf(&b, "%sbearer_token: %s\n", ind, q(sec()))
		case 2:
			fmt.Fprintf(&b, "%sauthorization:\n%s  type: Bearer\n%s  credentials: %s\n", ind, ind, ind, q(sec()))
		case 3:
			fmt.Fprintf(&b, "%soauth2:\n%s  client_id: cid\n%s  client_secret: %s\n%s  token_url: http://t/x\n", ind, ind, ind, q(sec()), ind)
		}
		if allowTLS && r.Chance(30) {
			fmt.Fprintf(&b, "%stls_config:\n%s  insecure_skip_verify: true\n%s  server_name: sn\n", ind, ind, ind)
		}
	}
	fmt.Fprintf(&b, "global:\n  scrape_interval: %s\n  evaluation_interval: 1m\n  external_labels:\n    cluster: c\n", r.PickS("15s", "30s"))
	if r.Chance(40) {
		b.WriteString("rule_files:\n- /etc/rules/*.yml\n")
	}
	nj := 1 + r.Intn(3)
	b.WriteString("scrape_configs:\n")
	jobs := []string{}
	for j := 0; j < nj; j++ {
		name := fmt.Sprintf("job%d", j)
		jobs = append(jobs, name)
		fmt.Fprintf(&b, "- job_name: %s\n", name)
		if r.Chance(50) {
			fmt.Fprintf(&b, "  scheme: %s\n", r.PickS("http", "https"))
		}
		if r.Chance(50) {
			fmt.Fprintf(&b, "  metrics_path: %s\n", r.PickS("/metrics", "/probe"))
		}
		if r.Chance(40) {
			fmt.Fprintf(&b, "  scrape_interval: %s\n  scrape_timeout: %s\n", r.PickS("20s", "1m"), r.PickS("5s", "10s"))
		}
		if r.Chance(40) {
			b.WriteString("  params:\n    module: [m1, m2]\n")
		}
		if r.Chance(30) {
			b.WriteString("  honor_labels: true\n")
		}
		if r.Chance(30) {
			b.WriteString("  honor_timestamps: false\n")
		}
		if r.Chance(30) {
			fmt.Fprintf(&b, "  sample_limit: %d\n", 100+r.Intn(5))
		}
		auth("  ", true)
		switch r.Intn(3) {
		case 0:
			b.WriteString("  static_configs:\n  - targets: ['1.1.1.1:80', '2.2.2.2:80']\n    labels:\n      a: b\n")
		case 1:
			b.WriteString("  file_sd_configs:\n  - files: ['/x/*.json']\n")
		default:
			b.WriteString("  file_sd_configs:\n  - files: ['/y/*.yml']\n    refresh_interval: 1m\n  static_configs:\n  - targets: ['3.3.3.3:80']\n")
		}
		if r.Chance(50) {
			b.WriteString("  relabel_configs:\n  - source_labels: [a]\n    regex: 'b.*'\n    action: keep\n")
		}
		if r.Chance(50) {
			b.WriteString("  metric_relabel_configs:\n  - source_labels: [__name__]\n    regex: 'go_.*'\n    action: drop\n")
		}
	}
	if r.Chance(50) {
		b.WriteString("alerting:\n  alertmanagers:\n  - static_configs:\n    - targets: ['am:9093']\n")
		auth("    ", false)
	}
	if r.Chance(60) {
		n := 1 + r.Intn(2)
		b.WriteString("remote_write:\n")
		for i := 0; i < n; i++ {
			if r.Chance(30) {
				fmt.Fprintf(&b, "- url: https://writer:wr1te-s3cret@rw%d/api\n", i) // credentials inside the URL
			} else {
				fmt.Fprintf(&b, "- url: http://rw%d/api\n", i)
			}
			auth("  ", false)
		}
	}
	if r.Chance(30) {
		if r.Chance(30) {
			b.WriteString("remote_read:\n- url: https://reader:r3ad-s3cret@rr/api\n")
		} else {
			b.WriteString("remote_read:\n- url: http://rr/api\n")
		}
		auth("  ", false)
	}
	c := &ICase{Config: b.String(), Assign: map[string][]ITarget{}, SelfMonitor: r.Chance(30)}
	if r.Chance(85) {
		c.Proxy = "http://127.0.0.1:8008"
	}
	names := append([]string{}, jobs...)
	if r.Chance(30) {
		names = append(names, "gone-job")
	}
	h := uint64(100)
	badNames := r.Chance(5) // known finding: the generated file does not load, nothing else can be compared
	for _, jn := range names {
		if r.Chance(25) {
			continue // job without targets
		}
		nt := 1 + r.Intn(3)
		for t := 0; t < nt; t++ {
			h++
			lb := map[string]string{"__address__": fmt.Sprintf("10.0.0.%d:9100", h), "__metrics_path__": r.PickS("/metrics", "/m"),
				"instance": fmt.Sprintf("i%d", h), "job": jn}
			if r.Chance(60) {
				lb["__scheme__"] = r.PickS("http", "https")
			}
			if r.Chance(30) {
				lb["__param_module"] = "mx"
			}
			if badNames && r.Chance(50) {
				lb["__invalid_label_bad-name"] = "v"
			}
			c.Assign[jn] = append(c.Assign[jn], ITarget{Hash: h, Labels: lb})
			// the multi-target exporter pattern: more targets behind the same address and path,
			// told apart by a parameter and the instance label only
			if r.Chance(15) {
				for k := 0; k < 1+r.Intn(2); k++ {
					h++
					cp := map[string]string{}
					for kk, v := range lb {
						cp[kk] = v
					}
					cp["__param_target"] = fmt.Sprintf("probe%d", k)
					cp["instance"] = fmt.Sprintf("probe%d", k)
					c.Assign[jn] = append(c.Assign[jn], ITarget{Hash: h, Labels: cp})
				}
			}
		}
	}
	// a reload: the injector already holds an earlier configuration - the same one with other external
	// labels / another interval (settings the config hash ignores or not), or an unrelated one
	switch r.Intn(10) {
	case 0, 1:
		c.Before = strings.Replace(c.Config, "    cluster: c\n", "    cluster: old\n    replica: r0\n", 1)
	case 2:
		c.Before = strings.Replace(c.Config, "evaluation_interval: 1m", "evaluation_interval: 2m", 1)
	case 3:
		c.Before = "global:\n  scrape_interval: 20s\n  external_labels:\n    cluster: other\nscrape_configs:\n- job_name: gone-job\n  static_configs:\n  - targets: ['h:1']\n"
	}
	return c
}

type absJob struct {
	name, ingest, scheme int64
	ba, be, tls, oa      int64
	sd                   []int64
	static               [][3]int64
	relabel              []int64
	proxy                int64
}

func jobID(name string, table map[string]int64) int64 {
	if name == "prometheus_shards" {
		return 1000000
	}
	if id, ok := table[name]; ok {
		return id
	}
	id := int64(len(table) + 1)
	table[name] = id
	return id
}

func schemeID(s string) int64 {
	if s == "https" {
		return 1
	}
	return 0
}

func abstractJob(j *config.ScrapeConfig, table map[string]int64, generated bool) absJob {
	a := absJob{name: jobID(j.JobName, table), ba: -1, be: -1, tls: -1, oa: -1, proxy: -1, sd: []int64{}, relabel: []int64{}, static: [][3]int64{}}
	if j.JobName == "prometheus_shards" {
		return a
	}
	a.ingest = digest([]interface{}{j.ScrapeInterval, j.ScrapeTimeout, j.Params, j.HonorLabels, j.HonorTimestamps, j.SampleLimit,
		j.TargetLimit, j.LabelLimit, j.LabelNameLengthLimit, j.LabelValueLengthLimit, j.BodySizeLimit, j.MetricRelabelConfigs, j.MetricsPath})
	a.scheme = schemeID(j.Scheme)
	if j.HTTPClientConfig.BasicAuth != nil {
		a.ba = 1
	}
	if j.HTTPClientConfig.BearerToken != "" {
		a.be = 1
	}
	if !reflect.DeepEqual(j.HTTPClientConfig.TLSConfig, config.DefaultScrapeConfig.HTTPClientConfig.TLSConfig) {
		a.tls = 1
	}
	if j.HTTPClientConfig.Authorization != nil || j.HTTPClientConfig.OAuth2 != nil {
		typ := ""
		if j.HTTPClientConfig.Authorization != nil {
			typ = j.HTTPClientConfig.Authorization.Type
		}
		a.oa = digest([]interface{}{typ, j.HTTPClientConfig.OAuth2 != nil})
	}
	if j.HTTPClientConfig.ProxyURL.URL != nil {
		a.proxy = digest(j.HTTPClientConfig.ProxyURL.String())
	}
	if generated {
		ok := len(j.ServiceDiscoveryConfigs) <= 1 // no entry at all: no target assigned
		if len(j.ServiceDiscoveryConfigs) == 1 {
			sc, isStatic := j.ServiceDiscoveryConfigs[0].(discovery.StaticConfig)
			if !isStatic {
				ok = false
			} else {
				for _, g := range sc {
					var h, jn int64 = -1, -1
					fmt.Sscan(string(g.Labels["__param__hash"]), &h)
					jn = jobID(string(g.Labels["__param__jobName"]), table)
					a.static = append(a.static, [3]int64{h, schemeID(string(g.Labels["__param__scheme"])), jn})
				}
			}
		}
		if !ok {
			a.sd = []int64{777}
		}
		if len(j.RelabelConfigs) == 1 && j.RelabelConfigs[0].Action == "labelmap" && strings.Contains(j.RelabelConfigs[0].Regex.String(), "__invalid_label_(.+)") && j.RelabelConfigs[0].Replacement == "$1" {
			a.relabel = []int64{999}
		} else {
			for _, rc := range j.RelabelConfigs {
				a.relabel = append(a.relabel, digest(rc))
			}
		}
	} else {
		for _, sd := range j.ServiceDiscoveryConfigs {
			a.sd = append(a.sd, digest(sd.Name()))
		}
		for _, rc := range j.RelabelConfigs {
			a.relabel = append(a.relabel, digest(rc))
		}
	}
	return a
}

func encAbsJob(w *ints, a absJob) {
	w.add(a.name, a.ingest, a.scheme, a.ba, a.be, a.tls, a.oa, int64(len(a.sd)))
	w.add(a.sd...)
	w.add(int64(len(a.static)))
	for _, s := range a.static {
		w.add(s[0], s[1], s[2])
	}
	w.add(int64(len(a.relabel)))
	w.add(a.relabel...)
	w.add(a.proxy)
}

type secretRef struct {
	path string
	val  string
}

func clientSecrets(prefix string, c *config.Config) []secretRef {
	var out []secretRef
	add := func(p string, hc interface{}) {
		v := reflect.ValueOf(hc)
		ba := v.FieldByName("BasicAuth")
		if !ba.IsNil() {
			out = append(out, secretRef{p + ".basic_auth.password", ba.Elem().FieldByName("Password").String()})
		}
		if bt := v.FieldByName("BearerToken").String(); bt != "" {
			out = append(out, secretRef{p + ".bearer_token", bt})
		}
		au := v.FieldByName("Authorization")
		if !au.IsNil() {
			out = append(out, secretRef{p + ".authorization.credentials", au.Elem().FieldByName("Credentials").String()})
		}
		oa := v.FieldByName("OAuth2")
		if !oa.IsNil() {
			out = append(out, secretRef{p + ".oauth2.client_secret", oa.Elem().FieldByName("ClientSecret").String()})
		}
	}
	for _, am := range c.AlertingConfig.AlertmanagerConfigs {
		add("alerting", am.HTTPClientConfig)
	}
	for _, rw := range c.RemoteWriteConfigs {
		add("remote_write", rw.HTTPClientConfig)
	}
	for _, rr := range c.RemoteReadConfigs {
		add("remote_read", rr.HTTPClientConfig)
	}
	return out
}

// injectRejectedReload is the file path of a sidecar started with a configuration file: the file is
// accepted (ReloadFromFile), then edited into something strict parsing rejects and reloaded again, which must
// leave the accepted configuration current; a regeneration after that (a new assignment) must produce the very
// file the accepted configuration produced without the rejected reload in between.
func injectRejectedReload(c *ICase, tmap map[string][]*target.Target, work string, i int, want []byte) string {
	file := filepath.Join(work, fmt.Sprintf("inj-src-%d-%d.yml", os.Getpid(), i))
	out := filepath.Join(work, fmt.Sprintf("inj-rej-%d-%d.yml", os.Getpid(), i))
	defer os.Remove(file)
	defer os.Remove(out)
	if os.WriteFile(file, []byte(c.Config), 0644) != nil {
		return "skipped"
	}
	cm := prom.NewConfigManager()
	injr := sidecar.NewInjector(out, sidecar.InjectConfigOptions{ProxyURL: c.Proxy, PrometheusURL: "http://127.0.0.1:9090", ShardMonitorEnable: c.SelfMonitor},
		prometheus.NewRegistry(), quietLog())
	cm.AddReloadCallbacks(injr.ApplyConfig)
	if cm.ReloadFromFile(file) != nil {
		return "skipped"
	}
	hash := cm.ConfigInfo().ConfigHash
	for k, bad := range []string{
		strings.Replace(strings.Replace(c.Config, "job_name: ", "job_name: z", -1), "scrape_configs:", "scrape_confixs:", 1),
		"scrape_configs:\n- job_name: [\n",
	} {
		if bad == c.Config || os.WriteFile(file, []byte(bad), 0644) != nil {
			return "skipped"
		}
		if cm.ReloadFromFile(file) == nil {
			return "skipped"
		}
		if cm.ConfigInfo().ConfigHash != hash {
			return fmt.Sprintf("rejected reload %d changed the current configuration hash", k)
		}
		if err := injr.UpdateTargets(tmap); err != nil {
			return fmt.Sprintf("after rejected reload %d of the configuration file, regenerating from the still-current configuration fails: %v", k, err)
		}
		got, _ := os.ReadFile(out)
		if string(got) != string(want) {
			return fmt.Sprintf("after rejected reload %d of the configuration file, the regenerated file differs from the one the accepted configuration gives (%d vs %d bytes)", k, len(got), len(want))
		}
	}
	return ""
}

func runInject(a Args) *Result {
	res := newResult("inject", a.seed, a.tier)
	res.Rule = "random configurations (1-3 jobs with scheme/path/intervals/params/honor flags/limits, basic-auth | bearer | authorization | oauth2, TLS, static | file | dns discovery, relabeling, metric relabeling; alerting, remote write/read with secrets incl. values needing YAML quoting) x assignments (jobs without targets, targets of jobs that no longer exist, invalid-label names, params) through the real Injector; the file is loaded back and compared field-wise; non-trivial = at least one job has assigned targets; distinct by configuration + assignment"
	rng := NewRng(a.seed)
	n := 200
	if a.tier == "thorough" {
		n = 4000
	}
	if a.n > 0 {
		n = a.n
	}
	work := a.workdir
	if work == "" {
		work = os.TempDir()
	}
	_ = os.MkdirAll(work, 0755)
	type item struct{ c *ICase }
	var items []item
	var lines []string
	distinct := 0
	viol := func(clause, sigExtra, what string, c *ICase) {
		sig := "C11/" + clause
		if sigExtra != "" {
			sig += "/" + sigExtra
		}
		res.ImplViol = capViol(res.ImplViol, Violation{Property: "C11", Clause: clause, Signature: sig, What: what, Case: map[string]interface{}{"case": c}}, 2)
	}
	var cases []*ICase
	if a.corpus != "" {
		files, _ := os.ReadDir(a.corpus)
		for _, f := range files {
			data, err := os.ReadFile(a.corpus + "/" + f.Name())
			if err != nil {
				continue
			}
			var wrap struct {
				Case *ICase `json:"case"`
			}
			if json.Unmarshal(data, &wrap) == nil && wrap.Case != nil {
				cases = append(cases, wrap.Case)
			}
		}
		res.Dist["corpus_cases"] = len(cases)
	}
	if a.replay != "" {
		cases = nil
		data, _ := os.ReadFile(a.replay)
		var wrap struct {
			Case *ICase `json:"case"`
		}
		if json.Unmarshal(data, &wrap) == nil && wrap.Case != nil {
			cases = append(cases, wrap.Case)
		}
		n = 0
	}
	for i := 0; i < n; i++ {
		cases = append(cases, genInjectCase(rng.Fork()))
	}
	for i, c := range cases {
		cm := prom.NewConfigManager()
		if err := cm.ReloadFromRaw([]byte(c.Config)); err != nil {
			res.count("config_rejected")
			continue
		}
		orig := cm.ConfigInfo().Config
		out := filepath.Join(work, fmt.Sprintf("inj-%d-%d.yml", os.Getpid(), i))
		injr := sidecar.NewInjector(out, sidecar.InjectConfigOptions{ProxyURL: c.Proxy, PrometheusURL: "http://127.0.0.1:9090", ShardMonitorEnable: c.SelfMonitor},
			prometheus.NewRegistry(), quietLog())
		tmap := map[string][]*target.Target{}
		for jn, ts := range c.Assign {
			for _, t := range ts {
				tmap[jn] = append(tmap[jn], &target.Target{Hash: t.Hash, Labels: labels.FromMap(t.Labels)})
			}
		}
		if c.Before != "" {
			cmb := prom.NewConfigManager()
			if err := cmb.ReloadFromRaw([]byte(c.Before)); err == nil {
				if injr.ApplyConfig(cmb.ConfigInfo()) == nil {
					_ = injr.UpdateTargets(tmap)
					res.count("reload_after_earlier_config")
				}
			}
		}
		if err := injr.ApplyConfig(cm.ConfigInfo()); err != nil {
			viol("inject", "", "ApplyConfig fails on an accepted configuration: "+err.Error(), c)
			_ = os.Remove(out)
			continue
		}
		if err := injr.UpdateTargets(tmap); err != nil {
			viol("inject", "", "UpdateTargets fails: "+err.Error(), c)
			_ = os.Remove(out)
			continue
		}
		res.Evaluations++
		text, _ := os.ReadFile(out)
		gen, err := config.LoadFile(out, false, false, log.NewNopLogger())
		_ = os.Remove(out)
		if what := injectRejectedReload(c, tmap, work, i, text); what == "skipped" {
			res.count("rejected_reload_skipped")
		} else if what != "" {
			viol("rejectedReload", "", what, c)
		} else {
			res.count("rejected_reload_then_regeneration")
		}
		if err != nil {
			kind := "other"
			for _, s := range clientSecrets("", orig) {
				if strings.ContainsAny(s.val, ":#'\"") {
					kind = "secret-needs-quoting"
				}
			}
			if strings.Contains(err.Error(), "is not a valid label name") {
				kind = "invalid-label-name"
			}
			res.count("load_failed_" + kind)
			viol("load", kind, "the generated file is not a valid Prometheus configuration: "+err.Error(), c)
			continue
		}
		if len(c.Assign) > 0 {
			distinct++
		}
		res.count(fmt.Sprintf("jobs_%d", len(orig.ScrapeConfigs)))
		res.count(fmt.Sprintf("assigned_jobs_%d", len(c.Assign)))
		for _, s := range clientSecrets("", orig) {
			res.count("secret_" + s.path)
		}
		for _, j := range orig.ScrapeConfigs {
			if j.HTTPClientConfig.BasicAuth != nil {
				res.count("job_basic_auth")
			}
			if j.HTTPClientConfig.Authorization != nil {
				res.count("job_authorization")
			}
			if j.HTTPClientConfig.OAuth2 != nil {
				res.count("job_oauth2")
			}
			if j.Scheme == "https" {
				res.count("job_https")
			}
			if len(c.Assign[j.JobName]) == 0 {
				res.count("job_without_targets")
			}
		}
		if _, ok := c.Assign["gone-job"]; ok {
			res.count("targets_of_unknown_job")
		}
		if c.SelfMonitor {
			res.count("self_monitor")
		}
		if c.Proxy == "" {
			res.count("no_proxy_url")
		}
		// no secret of a scrape job in the file
		for _, j := range orig.ScrapeConfigs {
			vals := []string{}
			if j.HTTPClientConfig.BasicAuth != nil {
				vals = append(vals, string(j.HTTPClientConfig.BasicAuth.Password))
			}
			if j.HTTPClientConfig.Authorization != nil {
				vals = append(vals, string(j.HTTPClientConfig.Authorization.Credentials))
			}
			if j.HTTPClientConfig.OAuth2 != nil {
				vals = append(vals, string(j.HTTPClientConfig.OAuth2.ClientSecret))
			}
			inRemote := map[string]bool{}
			for _, s := range clientSecrets("", orig) {
				inRemote[s.val] = true
			}
			for _, v := range vals {
				if v != "" && v != "<secret>" && !inRemote[v] && strings.Contains(string(text), v) && len(v) > 5 {
					viol("jobSecretLeaks", "", "a secret of scrape job "+j.JobName+" appears in the generated file", c)
				}
			}
		}
		// static entries carry exactly the assigned targets' labels + routing
		for _, j := range gen.ScrapeConfigs {
			if j.JobName == "prometheus_shards" {
				continue
			}
			want := c.Assign[j.JobName]
			var groups []*struct {
				addr string
				ls   model.LabelSet
			}
			if len(j.ServiceDiscoveryConfigs) == 1 {
				if sc, ok := j.ServiceDiscoveryConfigs[0].(discovery.StaticConfig); ok {
					for _, g := range sc {
						addr := ""
						if len(g.Targets) == 1 {
							addr = string(g.Targets[0]["__address__"])
						}
						groups = append(groups, &struct {
							addr string
							ls   model.LabelSet
						}{addr, g.Labels})
					}
				}
			}
			if len(groups) != len(want) {
				viol("targets", "", fmt.Sprintf("job %s has %d static entries for %d assigned targets", j.JobName, len(groups), len(want)), c)
				continue
			}
			for _, t := range want {
				found := false
				for _, g := range groups {
					if string(g.ls["__param__hash"]) != fmt.Sprint(t.Hash) {
						continue
					}
					found = true
					sch := t.Labels["__scheme__"]
					if sch == "" {
						sch = "http"
					}
					okk := g.addr == t.Labels["__address__"] && string(g.ls["__scheme__"]) == "http" && string(g.ls["__param__scheme"]) == sch &&
						string(g.ls["__param__jobName"]) == j.JobName
					for k, v := range t.Labels {
						if k != "__scheme__" && string(g.ls[model.LabelName(k)]) != v {
							okk = false
						}
					}
					if len(g.ls) != len(t.Labels)+3+boolInt(t.Labels["__scheme__"] == "") {
						okk = false
					}
					if !okk {
						viol("targets", "", fmt.Sprintf("static entry of target %d of job %s does not carry its labels and routing parameters", t.Hash, j.JobName), c)
					}
				}
				if !found {
					viol("targets", "", fmt.Sprintf("assigned target %d of job %s is missing", t.Hash, j.JobName), c)
				}
			}
		}
		// everything outside scrape_configs is preserved, secrets included
		if !reflect.DeepEqual(orig.GlobalConfig, gen.GlobalConfig) {
			viol("global", "", "global section differs", c)
		}
		if !reflect.DeepEqual(orig.RuleFiles, gen.RuleFiles) && !(len(orig.RuleFiles) == 0 && len(gen.RuleFiles) == 0) {
			viol("rules", "", "rule_files differ", c)
		}
		if !reflect.DeepEqual(orig.AlertingConfig, gen.AlertingConfig) {
			viol("section", "alerting", "alerting section differs", c)
		}
		if !reflect.DeepEqual(orig.RemoteWriteConfigs, gen.RemoteWriteConfigs) && len(orig.RemoteWriteConfigs)+len(gen.RemoteWriteConfigs) > 0 {
			viol("section", "remote_write", "remote_write section differs", c)
		}
		if !reflect.DeepEqual(orig.RemoteReadConfigs, gen.RemoteReadConfigs) && len(orig.RemoteReadConfigs)+len(gen.RemoteReadConfigs) > 0 {
			viol("section", "remote_read", "remote_read section differs", c)
		}
		os1, os2 := clientSecrets("", orig), clientSecrets("", gen)
		if len(os1) != len(os2) {
			viol("sections", "", "alerting / remote sections differ in shape", c)
		} else {
			for k := range os1 {
				if os1[k] != os2[k] {
					viol("secret", os1[k].path, fmt.Sprintf("the secret at %s is not preserved: generated file has %q at %s", os1[k].path, os2[k].val, os2[k].path), c)
				}
			}
		}
		// abstract jobs for the model
		table := map[string]int64{}
		w := &ints{}
		w.add(int64(len(items)))
		if c.Proxy != "" {
			w.add(digest(c.Proxy))
		} else {
			w.add(-1)
		}
		w.bool(c.SelfMonitor)
		var absOrig []absJob
		for _, j := range orig.ScrapeConfigs {
			absOrig = append(absOrig, abstractJob(j, table, false))
		}
		jn := []string{}
		for k := range c.Assign {
			jn = append(jn, k)
		}
		sort.Strings(jn)
		w.add(int64(len(jn)))
		for _, k := range jn {
			w.add(jobID(k, table), int64(len(c.Assign[k])))
			for _, t := range c.Assign[k] {
				w.add(int64(t.Hash), schemeID(t.Labels["__scheme__"]))
			}
		}
		w.add(int64(len(absOrig)))
		for _, aj := range absOrig {
			encAbsJob(w, aj)
		}
		w.add(int64(len(gen.ScrapeConfigs)))
		for _, j := range gen.ScrapeConfigs {
			encAbsJob(w, abstractJob(j, table, true))
		}
		lines = append(lines, w.String())
		items = append(items, item{c})
	}
	answers, err := runDriver(a.driver, "inject", lines)
	if err != nil {
		res.Mismatch = append(res.Mismatch, Violation{Property: "C11", Clause: "driver", Signature: "driver-failure", What: err.Error()})
		return res
	}
	for i, ans := range answers {
		full := map[string]interface{}{"case": items[i].c}
		if !strings.HasPrefix(ans, "case ") {
			res.Mismatch = append(res.Mismatch, Violation{Property: "C11", Clause: "bad-op", Signature: "bad-op", What: ans, Case: full})
			continue
		}
		f := fieldsAfter(ans, "case")
		res.Traces++
		if i < 2 {
			res.addSample(full)
		}
		if f["match"] != "1" {
			res.ImplViol = capViol(res.ImplViol, Violation{Property: "C11", Clause: "jobs", Signature: "C11/jobs",
				What: "the generated scrape jobs are not Inject.inject of the original ones (same jobs in order, static targets, http, no basic-auth/bearer/TLS, ingestion settings and other auth kept, proxy, optional self-monitor job): first difference at job " + f["diffAt"], Case: full, Line: lines[i]}, 3)
		}
	}
	res.Distinct = distinct
	return res
}

func boolInt(b bool) int {
	if b {
		return 1
	}
	return 0
}
