package main

// Engine "labels": scrape configurations x target groups through the real discovery translation.
// Hash part (C15): the Lean implementation of targetHash must agree bit for bit with ShardTarget.Hash;
// hashes must be stable across rounds, orderings, label splits and processes.

import (
	"context"
	"encoding/json"
	"fmt"
	"os"
	"os/exec"
	"sort"
	"strings"
	"time"

	"github.com/prometheus/common/model"
	"github.com/prometheus/prometheus/discovery/targetgroup"
	"github.com/prometheus/prometheus/model/labels"
	pscrape "github.com/prometheus/prometheus/scrape"

	"tkestack.io/kvass/pkg/discovery"
	"tkestack.io/kvass/pkg/prom"
)

type LTarget struct {
	Labels map[string]string `json:"labels"`
}
type LGroup struct {
	Labels  map[string]string `json:"labels"`
	Targets []LTarget         `json:"targets"`
}
type LCase struct {
	Config string   `json:"config"` // scrape_configs entry (YAML, one job named "j")
	Groups []LGroup `json:"groups"`
}

func lcaseConfig(c *LCase) (*prom.ConfigInfo, error) {
	cm := prom.NewConfigManager()
	if err := cm.ReloadFromRaw([]byte("global:\n  scrape_interval: 15s\nscrape_configs:\n" + c.Config)); err != nil {
		return nil, err
	}
	return cm.ConfigInfo(), nil
}

func (g *LGroup) toGroup(i int) *targetgroup.Group {
	tg := &targetgroup.Group{Source: fmt.Sprintf("g%d", i), Labels: model.LabelSet{}}
	for k, v := range g.Labels {
		tg.Labels[model.LabelName(k)] = model.LabelValue(v)
	}
	for _, t := range g.Targets {
		ls := model.LabelSet{}
		for k, v := range t.Labels {
			ls[model.LabelName(k)] = model.LabelValue(v)
		}
		tg.Targets = append(tg.Targets, ls)
	}
	return tg
}

// discover runs the real TargetsDiscovery once over the case and returns the active targets
func discover(c *LCase, rounds int) ([][]*discovery.SDTargets, []*discovery.SDTargets, error) {
	cfg, err := lcaseConfig(c)
	if err != nil {
		return nil, nil, err
	}
	td := discovery.New(quietLog())
	_ = td.ApplyConfig(cfg)
	ctx, cancel := context.WithCancel(context.Background())
	defer cancel()
	ch := make(chan map[string][]*targetgroup.Group)
	go func() { _ = td.Run(ctx, ch) }()
	var all [][]*discovery.SDTargets
	for r := 0; r < rounds; r++ {
		gs := []*targetgroup.Group{}
		for i := range c.Groups {
			gs = append(gs, c.Groups[i].toGroup(i))
		}
		ch <- map[string][]*targetgroup.Group{"j": gs}
		select {
		case <-td.ActiveTargetsChan():
		case <-time.After(5 * time.Second):
			return nil, nil, fmt.Errorf("no notification")
		}
		all = append(all, td.ActiveTargets()["j"])
	}
	return all, td.DropTargets()["j"], nil
}

func hashesOf(ts []*discovery.SDTargets) []string {
	out := []string{}
	for _, t := range ts {
		out = append(out, fmt.Sprintf("%d|%s", t.ShardTarget.Hash, t.PromTarget.URL().String()))
	}
	sort.Strings(out)
	return out
}

func hashChild(file string) int {
	data, err := os.ReadFile(file)
	if err != nil {
		return 3
	}
	c := &LCase{}
	if json.Unmarshal(data, c) != nil {
		return 3
	}
	all, _, err := discover(c, 1)
	if err != nil {
		return 4
	}
	out, _ := json.Marshal(hashesOf(all[0]))
	fmt.Println(string(out))
	return 0
}

var lblNames = []string{"env", "team", "zone", "__meta_role", "__meta_pod", "app", "bad-name", "1digit", "x.y"}
var lblVals = []string{"prod", "dev", "a", "b", "", "ünï", "x y", "q\"uote"}

// genOrderSensitive: a relabel program whose result depends on the order in which the labels are
// presented to it (a labelmap that maps several discovered labels onto one name - the last in label
// order wins), on targets that already carry job / scheme / path so that nothing else touches them
func genOrderSensitive(r *Rng) *LCase {
	var b strings.Builder
	b.WriteString("- job_name: j\n  relabel_configs:\n")
	fmt.Fprintf(&b, "  - regex: __meta_(%s)_label_(.+)\n    replacement: $2\n    action: labelmap\n", r.PickS("pod|service", "a|b|c", "[a-z]+"))
	if r.Chance(40) {
		b.WriteString("  - source_labels: [app]\n    target_label: copy\n")
	}
	c := &LCase{Config: b.String()}
	ng := 1 + r.Intn(2)
	for g := 0; g < ng; g++ {
		grp := LGroup{Labels: map[string]string{}}
		base := map[string]string{"job": "given", "__scheme__": r.PickS("http", "https"), "__metrics_path__": r.PickS("/metrics", "/m")}
		inGroup := r.Chance(50)
		if inGroup {
			for k, v := range base {
				grp.Labels[k] = v
			}
		}
		nt := 1 + r.Intn(3)
		for t := 0; t < nt; t++ {
			tl := LTarget{Labels: map[string]string{"__address__": fmt.Sprintf("10.1.%d.%d:%d", g, t, r.PickI(80, 9100))}}
			if !inGroup {
				for k, v := range base {
					tl.Labels[k] = v
				}
			}
			srcs := []string{"pod", "service", "a", "b", "c"}
			vals := []string{"gateway", "gateway-v2", "edge", "core", "x"}
			for i, sname := range srcs {
				if r.Chance(70) {
					tl.Labels["__meta_"+sname+"_label_app"] = vals[(i+r.Intn(2))%len(vals)]
				}
				if r.Chance(30) {
					tl.Labels["__meta_"+sname+"_label_tier"] = vals[r.Intn(len(vals))]
				}
			}
			grp.Targets = append(grp.Targets, tl)
		}
		c.Groups = append(c.Groups, grp)
	}
	return c
}

func genLabelsCase(r *Rng) *LCase {
	if r.Chance(12) {
		return genOrderSensitive(r)
	}
	var b strings.Builder
	b.WriteString("- job_name: j\n")
	if r.Chance(40) {
		fmt.Fprintf(&b, "  scheme: %s\n", r.PickS("http", "https"))
	}
	if r.Chance(40) {
		fmt.Fprintf(&b, "  metrics_path: %s\n", r.PickS("/metrics", "/probe", "/a/b"))
	}
	if r.Chance(40) {
		b.WriteString("  params:\n")
		for _, k := range []string{"module", "target", "empty"} {
			if r.Chance(50) {
				switch k {
				case "empty":
					fmt.Fprintf(&b, "    %s: []\n", k)
				default:
					fmt.Fprintf(&b, "    %s: [%s, second]\n", k, r.PickS("m0", "m1", "x"))
				}
			}
		}
	}
	if r.Chance(60) {
		b.WriteString("  relabel_configs:\n")
		n := 1 + r.Intn(3)
		for i := 0; i < n; i++ {
			switch r.Intn(7) {
			case 0:
				fmt.Fprintf(&b, "  - source_labels: [%s]\n    target_label: %s\n", r.PickS("env", "__meta_role", "team"), r.PickS("role", "env2", "__param_module", "__metrics_path__", "instance"))
			case 1:
				fmt.Fprintf(&b, "  - source_labels: [%s]\n    regex: %s\n    action: drop\n", r.PickS("env", "team"), r.PickS("dev", "a|b"))
			case 2:
				fmt.Fprintf(&b, "  - source_labels: [%s]\n    regex: %s\n    action: keep\n", r.PickS("env", "zone"), r.PickS("prod|dev|", "a.*"))
			case 3:
				b.WriteString("  - regex: __meta_(.+)\n    action: labelmap\n")
			case 4:
				fmt.Fprintf(&b, "  - regex: %s\n    action: labeldrop\n", r.PickS("team", "zone|app"))
			case 5:
				b.WriteString("  - source_labels: [__address__]\n    modulus: 3\n    target_label: shardno\n    action: hashmod\n")
			default:
				fmt.Fprintf(&b, "  - target_label: %s\n    replacement: %s\n", r.PickS("static", "__scheme__", "job"), r.PickS("v", "https", "other"))
			}
		}
	}
	c := &LCase{Config: b.String()}
	ng := 1 + r.Intn(3)
	for g := 0; g < ng; g++ {
		grp := LGroup{Labels: map[string]string{}}
		for _, n := range lblNames {
			if r.Chance(25) {
				grp.Labels[n] = lblVals[r.Intn(len(lblVals))]
			}
		}
		nt := 1 + r.Intn(4)
		for t := 0; t < nt; t++ {
			tl := LTarget{Labels: map[string]string{}}
			switch k := r.Intn(12); {
			case k < 8:
				tl.Labels["__address__"] = fmt.Sprintf("10.0.%d.%d:%d", g, r.Intn(3), r.PickI(80, 9100))
			case k < 10:
				tl.Labels["__address__"] = r.PickS("host.example", "[::1]", "10.9.9.9")
			case k < 11:
				tl.Labels["__address__"] = fmt.Sprintf("10.0.%d.%d:80", g, r.Intn(3))
				tl.Labels["__scheme__"] = "https"
			}
			for _, n := range lblNames {
				if r.Chance(20) {
					tl.Labels[n] = lblVals[r.Intn(len(lblVals))]
				}
			}
			grp.Targets = append(grp.Targets, tl)
		}
		c.Groups = append(c.Groups, grp)
	}
	return c
}

// the label set targetsFromGroup builds for target t of group g
func lsetOf(g *LGroup, t *LTarget) labels.Labels {
	m := map[string]string{}
	for k, v := range g.Labels {
		m[k] = v
	}
	for k, v := range t.Labels {
		m[k] = v
	}
	return labels.FromMap(m)
}

func encBytes(w *ints, s string) {
	w.add(int64(len(s)))
	for i := 0; i < len(s); i++ {
		w.add(int64(s[i]))
	}
}

func runLabelsHash(a Args) *Result {
	res := newResult("labels", a.seed, a.tier)
	res.Rule = "random scrape configs (scheme, path, params incl. empty lists, relabel programs: replace/keep/drop/labelmap/labeldrop/hashmod, plus order-sensitive label maps on targets that already carry job/scheme/path) x target groups (addresses with and without port, IPv6, group vs target labels, invalid label names, duplicates, address-less targets) through the real TargetsDiscovery; each active target's hash is recomputed in Lean from kvass' own final labels and URL; hashes are compared across 6 rounds, target/label permutations, group/target label splits and a child process; non-trivial = a target survived relabeling; distinct by (labels, url)"
	rng := NewRng(a.seed)
	n := 250
	if a.tier == "thorough" {
		n = 4000
	}
	if a.n > 0 {
		n = a.n
	}
	self, _ := os.Executable()
	work := a.workdir
	if work == "" {
		work = os.TempDir()
	}
	_ = os.MkdirAll(work, 0755)
	type item struct {
		c    *LCase
		info map[string]interface{}
	}
	var items []item
	var lines []string
	distinct := map[string]bool{}
	viol := func(clause, what string, c *LCase) {
		res.ImplViol = capViol(res.ImplViol, Violation{Property: "C15", Clause: clause, Signature: "C15/" + clause, What: what,
			Case: map[string]interface{}{"case": c}}, 3)
	}
	for i := 0; i < n; i++ {
		c := genLabelsCase(rng.Fork())
		cfg, err := lcaseConfig(c)
		if err != nil {
			res.count("config_rejected")
			continue
		}
		rounds, _, err := discover(c, 6)
		if err != nil {
			res.Notes = append(res.Notes, err.Error())
			continue
		}
		res.Evaluations++
		base := hashesOf(rounds[0])
		for r := 1; r < len(rounds); r++ {
			if strings.Join(hashesOf(rounds[r]), ",") != strings.Join(base, ",") {
				viol("rounds", "hashes differ between discovery rounds of identical input", c)
			}
		}
		// permuted targets, labels moved from group to targets
		c2 := &LCase{Config: c.Config}
		for _, g := range c.Groups {
			g2 := LGroup{Labels: map[string]string{}}
			for k := len(g.Targets) - 1; k >= 0; k-- {
				t2 := LTarget{Labels: map[string]string{}}
				for kk, v := range g.Labels {
					t2.Labels[kk] = v
				}
				for kk, v := range g.Targets[k].Labels {
					t2.Labels[kk] = v
				}
				g2.Targets = append(g2.Targets, t2)
			}
			c2.Groups = append(c2.Groups, g2)
		}
		if r2, _, err := discover(c2, 1); err == nil {
			if strings.Join(hashesOf(r2[0]), ",") != strings.Join(base, ",") {
				viol("split", "hashes depend on target order or on the split of labels between group and target", c)
			}
		}
		if i%10 == 0 { // another process
			f := fmt.Sprintf("%s/hash-%d-%d.json", work, os.Getpid(), i)
			data, _ := json.Marshal(c)
			_ = os.WriteFile(f, data, 0644)
			out, err := exec.Command(self, "hash-child", f).Output()
			_ = os.Remove(f)
			var got []string
			if err != nil || json.Unmarshal(out, &got) != nil || strings.Join(got, ",") != strings.Join(base, ",") {
				viol("process", "another process computes different hashes for the same input", c)
			}
			res.count("child_process_runs")
		}
		// Lean: recompute every hash from kvass' own final labels
		sc := cfg.Config.ScrapeConfigs[0]
		seen := map[string]uint64{}
		for gi := range c.Groups {
			for ti := range c.Groups[gi].Targets {
				lset := lsetOf(&c.Groups[gi], &c.Groups[gi].Targets[ti])
				lbls, _, err := discovery.VerifPopulateLabels(lset, sc)
				if err != nil || lbls == nil {
					continue
				}
				var found *discovery.SDTargets
				for _, t := range rounds[0] {
					if t.PromTarget.DiscoveredLabels().String() != "" {
						// match on URL + visible labels
					}
					if labels.Equal(t.PromTarget.Labels(), dropReserved(lbls)) && t.PromTarget.URL().String() == pscrape.NewTarget(lbls, nil, sc.Params).URL().String() {
						found = t
						break
					}
				}
				if found == nil {
					viol("missing", "a target that survives relabeling is not in the active set: "+lbls.String(), c)
					continue
				}
				url := found.PromTarget.URL().String()
				key := lbls.String() + "|" + url
				if h, ok := seen[key]; ok && h != found.ShardTarget.Hash {
					viol("function", "equal labels and URL, different hashes", c)
				}
				seen[key] = found.ShardTarget.Hash
				if discovery.VerifTargetHash(lbls, url) != found.ShardTarget.Hash {
					viol("function", "targetHash(final labels, url) is not the hash the discovery reports", c)
				}
				if distinct[key] {
					continue
				}
				distinct[key] = true
				w := &ints{}
				w.add(int64(len(items)), int64(len(lbls)))
				// deliberately unsorted: reverse order
				for k := len(lbls) - 1; k >= 0; k-- {
					encBytes(w, lbls[k].Name)
					encBytes(w, lbls[k].Value)
				}
				encBytes(w, url)
				lines = append(lines, w.String()+" "+fmt.Sprint(found.ShardTarget.Hash))
				items = append(items, item{c, map[string]interface{}{"labels": lbls.String(), "url": url, "hash": fmt.Sprint(found.ShardTarget.Hash)}})
			}
		}
		// different (labels, url) => different hash (a test, not a theorem)
		byHash := map[uint64]string{}
		for k, h := range seen {
			if other, ok := byHash[h]; ok && other != k {
				viol("distinct", "two targets differing in labels or URL share a hash: "+k+" / "+other, c)
			}
			byHash[h] = k
		}
	}
	answers, err := runDriver(a.driver, "hash", lines)
	if err != nil {
		res.Mismatch = append(res.Mismatch, Violation{Property: "C15", Clause: "driver", Signature: "driver-failure", What: err.Error()})
		return res
	}
	for i, ans := range answers {
		full := map[string]interface{}{"case": items[i].c, "observed": items[i].info}
		if !strings.HasPrefix(ans, "case ") {
			res.Mismatch = append(res.Mismatch, Violation{Property: "C15", Clause: "bad-op", Signature: "bad-op", What: ans, Case: full})
			continue
		}
		f := fieldsAfter(ans, "case")
		res.Traces++
		if i < 3 {
			res.addSample(full)
		}
		if f["match"] != "1" {
			res.Mismatch = capViol(res.Mismatch, Violation{Property: "C15", Clause: "correspondence", Signature: "hash/nomatch",
				What: "HashM.targetHash (Lean: xxhash64 + FNV-1a) differs from ShardTarget.Hash (" + ans + ")", Case: full, Line: lines[i]}, 3)
		}
		if f["perm"] != "1" {
			res.ModelViol = capViol(res.ModelViol, Violation{Property: "C15", Clause: "perm", Signature: "C15/perm", What: "model hash depends on label order", Case: full}, 3)
		}
	}
	res.Distinct = len(distinct)
	return res
}

func dropReserved(l labels.Labels) labels.Labels {
	out := labels.Labels{}
	for _, x := range l {
		if !strings.HasPrefix(x.Name, "__") {
			out = append(out, x)
		}
	}
	return out
}
