package main

// Engine "k8s": real pkg/shard/kubernetes against a client-go fake clientset (C18).

import (
	"context"
	"fmt"
	"io"
	"sort"
	"strconv"
	"strings"
	"time"

	"github.com/sirupsen/logrus"
	appsv1 "k8s.io/api/apps/v1"
	corev1 "k8s.io/api/core/v1"
	k8serrors "k8s.io/apimachinery/pkg/api/errors"
	metav1 "k8s.io/apimachinery/pkg/apis/meta/v1"
	"k8s.io/apimachinery/pkg/runtime"
	"k8s.io/apimachinery/pkg/runtime/schema"
	"k8s.io/client-go/kubernetes/fake"
	k8stesting "k8s.io/client-go/testing"

	kk "tkestack.io/kvass/pkg/shard/kubernetes"
)

type K8sScaleCase struct {
	Kind    string `json:"kind"`
	Del     bool   `json:"deletePVC"`
	CurNil  bool   `json:"replicasNil"`
	Cur     int32  `json:"replicas"`
	Tpls    int    `json:"templates"`
	Expect  int32  `json:"expect"`
	ExtraLo int    `json:"extraClaimsBelow"`
	UpdErr  int    `json:"updateError"` // 0: accepted, 1: the API server answers 409 Conflict, 2: another error
	Other   bool   `json:"otherSet"`    // a second StatefulSet matches the selector (listed after this one)
	// the replica count was changed after the manager had been obtained - by an earlier ChangeScale of the
	// same manager (Via = "same") or by somebody else (Via = "other"): Cur is the count at listing time,
	// Live the count when ChangeScale(Expect) is called
	Via  string `json:"changedVia,omitempty"`
	Live int32  `json:"liveReplicas,omitempty"`
}
type K8sPod struct {
	Ord int `json:"ord"` // -1: a pod with an unrelated name
	IP  int `json:"ip"`  // 0: no IP yet
}
type K8sShardsCase struct {
	Kind  string   `json:"kind"`
	Pods  []K8sPod `json:"pods"`
	Other bool     `json:"otherSet"`
}

// a second StatefulSet of the same selector, with its own pods' claims
func hasOther(c interface{}) bool {
	switch v := c.(type) {
	case *K8sScaleCase:
		return v.Other
	case *K8sShardsCase:
		return v.Other
	}
	return false
}

func otherSet() []runtime.Object {
	two := int32(2)
	o := newSts(&two, 1, 2, 2)
	o.Name = "zz-other"
	o.Spec.Selector = &metav1.LabelSelector{MatchLabels: map[string]string{"pod": "zz"}}
	objs := []runtime.Object{o}
	for i := 0; i < 2; i++ {
		pvc := &corev1.PersistentVolumeClaim{}
		pvc.Name = fmt.Sprintf("data0-zz-other-%d", i)
		pvc.Namespace = stsNS
		objs = append(objs, pvc)
	}
	return objs
}

type K8sRollCase struct {
	Kind     string `json:"kind"`
	Replicas int32  `json:"replicas"`
	Updated  int32  `json:"updated"`
}

const stsName, stsNS = "prom", "ns"

func newSts(replicas *int32, tpls int, statusReplicas, updated int32) *appsv1.StatefulSet {
	s := &appsv1.StatefulSet{}
	s.Name, s.Namespace = stsName, stsNS
	s.Labels = map[string]string{"app": "kvass"}
	s.Spec.Replicas = replicas
	s.Spec.Selector = &metav1.LabelSelector{MatchLabels: map[string]string{"pod": "prom"}}
	for t := 0; t < tpls; t++ {
		pvc := corev1.PersistentVolumeClaim{}
		pvc.Name = fmt.Sprintf("data%d", t)
		s.Spec.VolumeClaimTemplates = append(s.Spec.VolumeClaimTemplates, pvc)
	}
	s.Status.Replicas, s.Status.UpdatedReplicas, s.Status.ReadyReplicas = statusReplicas, updated, statusReplicas
	return s
}

func quietLog() *logrus.Logger {
	lg := logrus.New()
	lg.SetOutput(io.Discard)
	return lg
}

func runK8sScale(c *K8sScaleCase) (line string, obs map[string]interface{}) {
	var rep *int32
	if !c.CurNil {
		v := c.Cur
		rep = &v
	}
	objs := []runtime.Object{newSts(rep, c.Tpls, c.Cur, c.Cur)}
	maxOrd := int(c.Cur)
	if int(c.Expect) > maxOrd {
		maxOrd = int(c.Expect)
	}
	for t := 0; t < c.Tpls+1; t++ { // one extra template name that is NOT in the StatefulSet
		for i := 0; i < maxOrd+2; i++ {
			pvc := &corev1.PersistentVolumeClaim{}
			pvc.Name = fmt.Sprintf("data%d-%s-%d", t, stsName, i)
			pvc.Namespace = stsNS
			objs = append(objs, pvc)
		}
	}
	want := 1
	if c.Other {
		objs = append(objs, otherSet()...)
		want = 2
	}
	cli := fake.NewSimpleClientset(objs...)
	rm := kk.NewReplicasManager(cli, stsNS, "app=kvass", 8080, c.Del, quietLog())
	mgrs, err := rm.Replicas()
	if err != nil || len(mgrs) != want {
		return "", map[string]interface{}{"error": fmt.Sprint("replicas: ", err, len(mgrs))}
	}
	if c.UpdErr != 0 {
		cli.PrependReactor("update", "statefulsets", func(k8stesting.Action) (bool, runtime.Object, error) {
			if c.UpdErr == 1 {
				return true, nil, k8serrors.NewConflict(schema.GroupResource{Group: "apps", Resource: "statefulsets"}, stsName, fmt.Errorf("the object has been modified"))
			}
			return true, nil, fmt.Errorf("etcdserver: request timed out")
		})
	}
	live := c.Cur
	switch c.Via {
	case "same":
		_ = mgrs[0].ChangeScale(c.Live)
		live = c.Live
	case "other":
		if cur, err := cli.AppsV1().StatefulSets(stsNS).Get(context.TODO(), stsName, metav1.GetOptions{}); err == nil {
			l := c.Live
			cur.Spec.Replicas = &l
			_, _ = cli.AppsV1().StatefulSets(stsNS).Update(context.TODO(), cur, metav1.UpdateOptions{})
		}
		live = c.Live
	}
	cli.ClearActions()
	scaleErr := mgrs[0].ChangeScale(c.Expect)
	updated := false
	type del struct{ t, i int64 }
	var dels []del
	for _, a := range cli.Actions() {
		switch a.GetVerb() {
		case "update":
			if a.GetResource().Resource == "statefulsets" {
				updated = true
			}
		case "delete":
			act, ok := a.(k8stesting.DeleteAction)
			if !ok {
				continue
			}
			name := act.GetName()
			t, i := int64(999), int64(-999)
			parts := strings.Split(name, "-")
			if a.GetResource().Resource == "persistentvolumeclaims" && len(parts) == 3 && strings.HasPrefix(parts[0], "data") && parts[1] == stsName {
				tt, e1 := strconv.Atoi(strings.TrimPrefix(parts[0], "data"))
				ii, e2 := strconv.Atoi(parts[2])
				if e1 == nil && e2 == nil {
					t, i = int64(tt), int64(ii)
				}
			}
			dels = append(dels, del{t, i})
		}
	}
	if c.Other {
		if o, _ := cli.AppsV1().StatefulSets(stsNS).Get(context.TODO(), "zz-other", metav1.GetOptions{}); o == nil || o.Spec.Replicas == nil || *o.Spec.Replicas != 2 {
			dels = append(dels, del{998, -998}) // the other StatefulSet was rescaled: shows up as a foreign effect
		}
	}
	got, _ := cli.AppsV1().StatefulSets(stsNS).Get(context.TODO(), stsName, metav1.GetOptions{})
	w := &ints{}
	w.add(0)
	w.bool(c.Del)
	w.bool(c.CurNil)
	w.add(int64(live), int64(c.Tpls), int64(c.Expect))
	repNil := got == nil || got.Spec.Replicas == nil
	w.bool(repNil)
	if repNil {
		w.add(0)
	} else {
		w.add(int64(*got.Spec.Replicas))
	}
	w.bool(updated)
	w.bool(c.UpdErr == 0)
	w.bool(scaleErr != nil)
	w.add(int64(len(dels)))
	dl := []string{}
	for _, d := range dels {
		w.add(d.t, d.i)
		dl = append(dl, fmt.Sprintf("data%d-%s-%d", d.t, stsName, d.i))
	}
	obs = map[string]interface{}{"updated": updated, "deleted": dl, "errorReturned": scaleErr != nil}
	if !repNil {
		obs["replicas"] = *got.Spec.Replicas
	}
	return w.String(), obs
}

func runK8sShards(c *K8sShardsCase, rng *Rng) (string, map[string]interface{}) {
	n := int32(len(c.Pods))
	objs := []runtime.Object{newSts(&n, 1, n, n)}
	for k, p := range c.Pods {
		pod := &corev1.Pod{}
		pod.Namespace = stsNS
		pod.Labels = map[string]string{"pod": "prom"}
		if p.Ord >= 0 {
			pod.Name = fmt.Sprintf("%s-%d", stsName, p.Ord)
		} else {
			pod.Name = fmt.Sprintf("other-%d", k)
		}
		if p.IP != 0 {
			pod.Status.PodIP = fmt.Sprintf("10.0.0.%d", p.IP)
		}
		objs = append(objs, pod)
	}
	want := 1
	if c.Other {
		objs = append(objs, otherSet()...)
		want = 2
	}
	cli := fake.NewSimpleClientset(objs...)
	// the fake clientset lists in name order; re-order the list the way the case says
	cli.PrependReactor("list", "pods", func(a k8stesting.Action) (bool, runtime.Object, error) {
		l := &corev1.PodList{}
		for k, p := range c.Pods {
			pod := corev1.Pod{}
			pod.Namespace = stsNS
			pod.Labels = map[string]string{"pod": "prom"}
			if p.Ord >= 0 {
				pod.Name = fmt.Sprintf("%s-%d", stsName, p.Ord)
			} else {
				pod.Name = fmt.Sprintf("other-%d", k)
			}
			if p.IP != 0 {
				pod.Status.PodIP = fmt.Sprintf("10.0.0.%d", p.IP)
			}
			l.Items = append(l.Items, pod)
		}
		return true, l, nil
	})
	rm := kk.NewReplicasManager(cli, stsNS, "app=kvass", 8080, false, quietLog())
	mgrs, err := rm.Replicas()
	if err != nil || len(mgrs) != want {
		return "", map[string]interface{}{"error": fmt.Sprint("replicas: ", err, len(mgrs))}
	}
	shards, err := mgrs[0].Shards()
	if err != nil {
		return "", map[string]interface{}{"error": err.Error()}
	}
	w := &ints{}
	w.add(1, int64(len(c.Pods)))
	for _, p := range c.Pods {
		w.add(int64(p.Ord), int64(p.IP))
	}
	w.add(int64(len(shards)))
	rows := []string{}
	for _, s := range shards {
		ord := int64(-1)
		if strings.HasPrefix(s.ID, stsName+"-") {
			if v, e := strconv.Atoi(strings.TrimPrefix(s.ID, stsName+"-")); e == nil {
				ord = int64(v)
			}
		}
		// the URL is not exported; recover it from the first request the shard would make
		url := ""
		s.APIGet = func(u string, ret interface{}) error { url = u; return fmt.Errorf("probe") }
		_, _ = s.RuntimeInfo()
		ip := int64(0)
		if strings.HasPrefix(url, "http://10.0.0.") {
			rest := strings.TrimPrefix(url, "http://10.0.0.")
			if i := strings.Index(rest, ":"); i >= 0 {
				if v, e := strconv.Atoi(rest[:i]); e == nil && strings.HasPrefix(rest[i:], ":8080/") {
					ip = int64(v)
				} else {
					ip = 9999
				}
			}
		} else if !strings.HasPrefix(url, "http://:8080/") {
			ip = 9998
		}
		w.add(ord, ip)
		w.bool(s.Ready)
		rows = append(rows, fmt.Sprintf("%s %s ready=%v", s.ID, url, s.Ready))
	}
	return w.String(), map[string]interface{}{"shards": rows}
}

// k8sRollHistory: one long-lived ReplicasManager sees a StatefulSet go through every sequence of three
// statuses (replicas, updated, ready) out of a small catalogue, three minutes apart (the manager's own
// "not ready since" stamps are aged through the verif hook).  Whatever it saw before: while a rolling update
// is in progress (updated != replicas) the StatefulSet is not coordinated, and a settled, ready one is.
func k8sRollHistory(res *Result, add func(c interface{}, line string, obs map[string]interface{})) {
	type st struct{ r, u, rd int32 }
	cat := []st{{3, 3, 3}, {3, 3, 2}, {3, 1, 2}, {3, 1, 3}, {3, 2, 0}, {2, 2, 1}}
	n := 0
	for _, a := range cat {
		for _, b := range cat {
			for _, c := range cat {
				for _, age := range []time.Duration{0, 3 * time.Minute} {
					seq := []st{a, b, c}
					rep := seq[0].r
					obj := newSts(&rep, 0, seq[0].r, seq[0].u)
					obj.Status.ReadyReplicas = seq[0].rd
					cli := fake.NewSimpleClientset(obj)
					rm := kk.NewReplicasManager(cli, stsNS, "app=kvass", 8080, false, quietLog())
					hist := ""
					w := &ints{}
					w.add(3, int64(len(seq)))
					complete := true
					for k, x := range seq {
						if k > 0 {
							rm.VerifAgeStamps(age)
							cur, err := cli.AppsV1().StatefulSets(stsNS).Get(context.TODO(), stsName, metav1.GetOptions{})
							if err != nil {
								complete = false
								break
							}
							cur.Status.Replicas, cur.Status.UpdatedReplicas, cur.Status.ReadyReplicas = x.r, x.u, x.rd
							if _, err := cli.AppsV1().StatefulSets(stsNS).UpdateStatus(context.TODO(), cur, metav1.UpdateOptions{}); err != nil {
								if _, err := cli.AppsV1().StatefulSets(stsNS).Update(context.TODO(), cur, metav1.UpdateOptions{}); err != nil {
									complete = false
									break
								}
							}
						}
						mgrs, err := rm.Replicas()
						if err != nil {
							complete = false
							break
						}
						w.add(int64(k)*int64(age/time.Second), int64(x.r), int64(x.u), int64(x.rd))
						w.bool(len(mgrs) > 0)
						hist += fmt.Sprintf("(replicas=%d updated=%d ready=%d -> %d manager(s)) ", x.r, x.u, x.rd, len(mgrs))
						n++
						bad := ""
						if x.u != x.r && len(mgrs) != 0 {
							res.count("roll_history_rolling_coordinated")
							bad = "a StatefulSet whose rolling update is in progress is coordinated"
						}
						if x.u == x.r && x.rd == x.r && len(mgrs) != 1 {
							bad = "a settled and ready StatefulSet is not coordinated"
						}
						if x.u != x.r {
							res.count("roll_history_rolling_call")
						}
						if bad != "" {
							res.ImplViol = capViol(res.ImplViol, Violation{Property: "C18", Clause: "rollingHistory", Signature: "C18/rollingHistory",
								What: fmt.Sprintf("%s; one ReplicasManager, calls %v apart: %s", bad, age, hist),
								Case: map[string]interface{}{"case": map[string]interface{}{"kind": "rollingHistory", "statuses": seq, "minutes_between_calls": age.Minutes()}}}, 2)
						}
					}
					if complete {
						add(map[string]interface{}{"kind": "rollingHistory", "statuses": fmt.Sprint(seq), "minutes_between_calls": age.Minutes()}, w.String(), map[string]interface{}{"history": hist})
					}
				}
			}
		}
	}
	res.Dist["roll_history_calls"] = n
}

func runK8sRoll(c *K8sRollCase) (string, map[string]interface{}) {
	n := c.Replicas
	cli := fake.NewSimpleClientset(newSts(&n, 0, c.Replicas, c.Updated))
	rm := kk.NewReplicasManager(cli, stsNS, "app=kvass", 8080, false, quietLog())
	mgrs, err := rm.Replicas()
	if err != nil {
		return "", map[string]interface{}{"error": err.Error()}
	}
	w := &ints{}
	w.add(2, int64(c.Replicas), int64(c.Updated))
	w.bool(len(mgrs) == 0)
	return w.String(), map[string]interface{}{"managers": len(mgrs)}
}

func runK8s(a Args) *Result {
	res := newResult("k8s", a.seed, a.tier)
	res.Rule = "scale: every (current, requested) in [0,6]^2 x templates 0..3 x deletePVC x nil-replicas (exhaustive), plus a rejected Update (409 Conflict / other error) for every changing pair in [0,5]^2 x templates 0..2; a third of the cases with a second StatefulSet of the same selector listed after this one; the replica count changed between listing and ChangeScale (by the same manager or by somebody else) with the request equal to the count at listing time; shards: random pod lists (permutations of ordinals, missing IPs, malformed lists with gaps/foreign names); rolling: all (replicas, updated) in [0,3]^2; non-trivial = the scale changes, or the pod list is a non-identity permutation"
	rng := NewRng(a.seed)
	type item struct {
		c   interface{}
		obs map[string]interface{}
	}
	var items []item
	var lines []string
	add := func(c interface{}, line string, obs map[string]interface{}) {
		if line == "" {
			res.Mismatch = append(res.Mismatch, Violation{Property: "C18", Clause: "harness", Signature: "k8s/harness", What: fmt.Sprint(obs), Case: c})
			return
		}
		items = append(items, item{c, obs})
		lines = append(lines, fmt.Sprintf("%d %s", len(items)-1, line))
	}
	lim := int32(6)
	if a.tier == "thorough" {
		lim = 9
	}
	for cur := int32(0); cur <= lim; cur++ {
		for exp := int32(0); exp <= lim; exp++ {
			for t := 0; t <= 3; t++ {
				for _, del := range []bool{false, true} {
					c := &K8sScaleCase{Kind: "scale", Del: del, Cur: cur, Tpls: t, Expect: exp, Other: (int(cur)+int(exp)+t)%3 == 0}
					l, o := runK8sScale(c)
					add(c, l, o)
					if cur != exp && t <= 2 && cur <= 5 && exp <= 5 { // the API server rejects the update
						for ue := 1; ue <= 2; ue++ {
							c := &K8sScaleCase{Kind: "scale", Del: del, Cur: cur, Tpls: t, Expect: exp, UpdErr: ue}
							l, o := runK8sScale(c)
							add(c, l, o)
						}
					}
				}
			}
		}
		// the count changes between listing and ChangeScale; the request equals the count at listing time
		for l := int32(0); l <= 4 && cur <= 4; l++ {
			if l == cur {
				continue
			}
			for _, via := range []string{"same", "other"} {
				for _, del := range []bool{false, true} {
					c := &K8sScaleCase{Kind: "scale", Del: del, Cur: cur, Tpls: 1 + int(l)%2, Expect: cur, Via: via, Live: l}
					l2, o := runK8sScale(c)
					add(c, l2, o)
				}
			}
		}
		c := &K8sScaleCase{Kind: "scale", Del: true, CurNil: true, Cur: 0, Tpls: 2, Expect: cur}
		l, o := runK8sScale(c)
		add(c, l, o)
	}
	nShards := 300
	if a.tier == "thorough" {
		nShards = 5000
	}
	for k := 0; k < nShards; k++ {
		n := rng.Intn(13)
		c := &K8sShardsCase{Kind: "shards", Other: rng.Chance(30)}
		perm := make([]int, n)
		for i := range perm {
			perm[i] = i
		}
		for i := n - 1; i > 0; i-- {
			j := rng.Intn(i + 1)
			perm[i], perm[j] = perm[j], perm[i]
		}
		for _, o := range perm {
			p := K8sPod{Ord: o, IP: 1 + rng.Intn(200)}
			if rng.Chance(20) {
				p.IP = 0
			}
			c.Pods = append(c.Pods, p)
		}
		if rng.Chance(15) && n > 0 { // malformed: a gap, a foreign name
			i := rng.Intn(n)
			if rng.Chance(50) {
				c.Pods[i].Ord = -1
			} else {
				c.Pods[i].Ord = n + 3
			}
		}
		if c.Pods == nil {
			c.Pods = []K8sPod{}
		}
		l, o := runK8sShards(c, rng)
		add(c, l, o)
	}
	for r := int32(0); r <= 3; r++ {
		for u := int32(0); u <= 3; u++ {
			c := &K8sRollCase{Kind: "rolling", Replicas: r, Updated: u}
			l, o := runK8sRoll(c)
			add(c, l, o)
		}
	}
	if a.replay == "" && a.wants("C18") {
		k8sRollHistory(res, add)
	}
	res.Evaluations = len(lines)
	res.Exhaustive = true
	answers, err := runDriver(a.driver, "k8s", lines)
	if err != nil {
		res.Mismatch = append(res.Mismatch, Violation{Property: "C18", Clause: "driver", Signature: "driver-failure", What: err.Error()})
		return res
	}
	distinct := map[string]bool{}
	for i, ans := range answers {
		it := items[i]
		full := map[string]interface{}{"case": it.c, "observed": it.obs}
		if !strings.HasPrefix(ans, "case ") {
			res.Mismatch = append(res.Mismatch, Violation{Property: "C18", Clause: "bad-op", Signature: "bad-op", What: ans, Case: full, Line: lines[i]})
			continue
		}
		f := fieldsAfter(ans, "case", "tags")
		tag := ""
		if idx := strings.Index(ans, " tags "); idx >= 0 {
			tag = strings.TrimSpace(ans[idx+6:])
		}
		res.count("tag_" + tag)
		res.Traces++
		if tag != "noop" && tag != "nil" && tag != "settled" {
			distinct[lines[i][strings.Index(lines[i], " ")+1:]] = true
		}
		if i%97 == 0 {
			res.addSample(full)
		}
		if f["match"] != "1" {
			res.Mismatch = capViol(res.Mismatch, Violation{Property: "C18", Clause: "correspondence", Signature: "k8s/nomatch",
				What: "model and pkg/shard/kubernetes disagree (" + ans + ")", Case: full, Line: lines[i]}, 5)
		}
		if f["impl"] != "ok" {
			res.ImplViol = capViol(res.ImplViol, Violation{Property: "C18", Clause: f["impl"], Signature: "C18/" + f["impl"],
				What: "Spec.C18 clause " + f["impl"] + " false on the real code", Case: full, Line: lines[i]}, 3)
		}
		// C19: the same case without the second StatefulSet behaves as the model says (the cases are
		// enumerated with and without it), so a failure that needs its presence is a replica depending on
		// another replica
		if hasOther(it.c) {
			res.count("cases_with_a_second_statefulset")
			if f["impl"] != "ok" || f["match"] != "1" {
				what := "with a second StatefulSet under the same selector, what the manager of this replica lists or scales is no longer what it lists or scales alone (" + ans + ")"
				res.ImplViol = capViol(res.ImplViol, Violation{Property: "C19", Clause: "otherReplica", Signature: "C19/otherReplica",
					What: what, Case: full, Line: lines[i]}, 6)
			}
		}
		if f["model"] != "ok" {
			res.ModelViol = capViol(res.ModelViol, Violation{Property: "C18", Clause: f["model"], Signature: "C18/" + f["model"],
				What: "Spec.C18 clause " + f["model"] + " false on the model", Case: full, Line: lines[i]}, 3)
		}
	}
	res.Distinct = len(distinct)
	_ = sort.Strings
	return res
}
