package main

// Engine "cfghash" (C16): the configuration hash.  A reflection walker dumps the parsed config into
// the value tree of Kvass/Model/HStruct.lean (unexported fields included); the Lean model of
// hashstructure must reproduce ConfigHash bit for bit; a catalogue of single-setting edits,
// re-formattings and external-label edits is monitored.

import (
	"encoding"
	"encoding/binary"
	"encoding/json"
	"fmt"
	"math"
	"os"
	"os/exec"
	"reflect"
	"strings"
	"time"

	"github.com/mitchellh/hashstructure/v2"
	"github.com/prometheus/prometheus/config"
	_ "github.com/prometheus/prometheus/discovery/file" // registers file_sd_configs
	"github.com/prometheus/prometheus/model/labels"

	"tkestack.io/kvass/pkg/prom"
)

var (
	hashableT   = reflect.TypeOf((*hashstructure.Hashable)(nil)).Elem()
	includableT = reflect.TypeOf((*hashstructure.Includable)(nil)).Elem()
	inclMapT    = reflect.TypeOf((*hashstructure.IncludableMap)(nil)).Elem()
	stringerT   = reflect.TypeOf((*fmt.Stringer)(nil)).Elem()
	timeT       = reflect.TypeOf(time.Time{})
	binMarshT   = reflect.TypeOf((*encoding.BinaryMarshaler)(nil)).Elem()
)

type dumper struct {
	w           *ints
	unsupported []string
	nodes       int
}

func (d *dumper) bytes(b []byte) {
	d.w.add(int64(len(b)))
	for _, x := range b {
		d.w.add(int64(x))
	}
}

// dump mirrors hashstructure's walker.visit; `readable` is false below an unexported field, where
// Interface() may not be called (such values cannot influence the hash; they are dumped best-effort)
func (d *dumper) dump(v reflect.Value, readable bool) {
	d.nodes++
	for {
		if v.Kind() == reflect.Interface {
			v = v.Elem()
			continue
		}
		if v.Kind() == reflect.Ptr {
			v = reflect.Indirect(v)
			continue
		}
		break
	}
	if !v.IsValid() {
		d.w.add(3)
		return
	}
	le := func(n int, x uint64) {
		b := make([]byte, 8)
		binary.LittleEndian.PutUint64(b, x)
		d.w.add(0)
		d.bytes(b[:n])
	}
	switch v.Kind() {
	case reflect.Int, reflect.Int64:
		le(8, uint64(v.Int()))
		return
	case reflect.Int8:
		le(1, uint64(v.Int()))
		return
	case reflect.Int16:
		le(2, uint64(v.Int()))
		return
	case reflect.Int32:
		le(4, uint64(v.Int()))
		return
	case reflect.Uint, reflect.Uint64:
		le(8, v.Uint())
		return
	case reflect.Uint8:
		le(1, v.Uint())
		return
	case reflect.Uint16:
		le(2, v.Uint())
		return
	case reflect.Uint32:
		le(4, v.Uint())
		return
	case reflect.Bool:
		if v.Bool() {
			le(1, 1)
		} else {
			le(1, 0)
		}
		return
	case reflect.Float64:
		le(8, math.Float64bits(v.Float()))
		return
	case reflect.Float32:
		le(4, uint64(math.Float32bits(float32(v.Float()))))
		return
	}
	if v.Type() == timeT {
		if readable {
			b, _ := v.Interface().(time.Time).MarshalBinary()
			d.w.add(2)
			d.bytes(b)
		} else {
			d.w.add(3)
		}
		return
	}
	switch v.Kind() {
	case reflect.Array, reflect.Slice:
		if v.Kind() == reflect.Array {
			d.w.add(5, int64(v.Len()))
		} else {
			d.w.add(4, int64(v.Len()))
		}
		for i := 0; i < v.Len(); i++ {
			d.dump(v.Index(i), readable)
		}
	case reflect.Map:
		d.w.add(6, int64(v.Len()))
		for _, k := range v.MapKeys() {
			d.dump(k, readable)
			d.dump(v.MapIndex(k), readable)
		}
	case reflect.Struct:
		t := v.Type()
		if readable && (t.Implements(hashableT) || reflect.PtrTo(t).Implements(hashableT) || t.Implements(includableT) ||
			reflect.PtrTo(t).Implements(includableT) || t.Implements(inclMapT) || reflect.PtrTo(t).Implements(inclMapT)) {
			d.unsupported = append(d.unsupported, "type "+t.String()+" customises hashing (Hashable/Includable)")
		}
		d.w.add(7)
		d.bytes([]byte(t.Name()))
		d.w.add(int64(t.NumField()))
		for i := 0; i < t.NumField(); i++ {
			f := t.Field(i)
			d.bytes([]byte(f.Name))
			exported := f.PkgPath == ""
			if f.Name == "_" {
				d.unsupported = append(d.unsupported, "blank field in "+t.String())
			}
			d.w.bool(exported)
			tag := f.Tag.Get("hash")
			fv := v.Field(i)
			switch tag {
			case "ignore", "-":
				d.w.add(1)
			case "set":
				d.w.add(2)
			case "string":
				d.w.add(3)
				if readable && exported && fv.Type().Implements(stringerT) {
					s := fv.Interface().(fmt.Stringer).String()
					d.w.add(1)
					d.bytes([]byte(s))
					continue
				}
				d.unsupported = append(d.unsupported, "hash:\"string\" on a non-Stringer in "+t.String())
			default:
				d.w.add(0)
			}
			d.dump(fv, readable && exported)
		}
	case reflect.String:
		d.w.add(1)
		d.bytes([]byte(v.String()))
	default:
		if readable {
			d.unsupported = append(d.unsupported, "kind "+v.Kind().String()+" in hashed data")
		}
		d.w.add(3)
	}
}

// ----- configuration catalogue -----

type cfgKnobs struct {
	Interval    string
	ExtLabel    string
	JobPath     string
	Regex       string
	RegexAction string
	MetricRegex string
	Password    string
	Bearer      string
	SDTarget    string
	SDRefresh   string
	RWUrl       string
	HonorLabels bool
	SecondJob   bool
	Replacement string
	Modulus     int
	RelPaths    bool // relative file paths (file SD, rule files)
	WriteRegex  string
	AlertRegex  string
}

func baseKnobs() cfgKnobs {
	return cfgKnobs{Interval: "15s", ExtLabel: "c1", JobPath: "/metrics", Regex: "prod|dev", RegexAction: "keep", MetricRegex: "go_.*",
		Password: "pw1", Bearer: "tok1", SDTarget: "10.0.0.1:80", SDRefresh: "30s", RWUrl: "http://rw/api", Replacement: "$1", Modulus: 4, WriteRegex: "tmp_.*", AlertRegex: "info|debug"}
}

func (k cfgKnobs) yaml(style int) string {
	var b strings.Builder
	ind := "  "
	if style == 1 {
		b.WriteString("# a comment\n\n")
	}
	fmt.Fprintf(&b, "global:\n%sscrape_interval: %s\n%sexternal_labels:\n%s%scluster: %s\n", ind, k.Interval, ind, ind, ind, k.ExtLabel)
	job := func(name string) {
		if style == 2 { // different key order inside the job
			fmt.Fprintf(&b, "- metrics_path: %s\n  job_name: %s\n", k.JobPath, name)
		} else {
			fmt.Fprintf(&b, "- job_name: %s\n  metrics_path: %s\n", name, k.JobPath)
		}
		if k.HonorLabels {
			b.WriteString("  honor_labels: true\n")
		}
		fmt.Fprintf(&b, "  basic_auth:\n    username: u\n    password: '%s'\n", k.Password)
		fmt.Fprintf(&b, "  static_configs:\n  - targets: ['%s']\n", k.SDTarget)
		sdFiles := "/etc/x/*.json"
		if k.RelPaths {
			sdFiles = "sd/*.json"
		}
		fmt.Fprintf(&b, "  file_sd_configs:\n  - files: ['%s']\n    refresh_interval: %s\n", sdFiles, k.SDRefresh)
		fmt.Fprintf(&b, "  relabel_configs:\n  - source_labels: [env]\n    regex: '%s'\n    action: %s\n", k.Regex, k.RegexAction)
		fmt.Fprintf(&b, "  - source_labels: [__address__]\n    modulus: %d\n    target_label: shard\n    action: hashmod\n", k.Modulus)
		fmt.Fprintf(&b, "  - source_labels: [a]\n    regex: (.+)\n    target_label: b\n    replacement: %s\n", k.Replacement)
		fmt.Fprintf(&b, "  metric_relabel_configs:\n  - source_labels: [__name__]\n    regex: '%s'\n    action: drop\n", k.MetricRegex)
	}
	if k.RelPaths {
		b.WriteString("rule_files:\n- rules/*.yml\n")
	}
	b.WriteString("scrape_configs:\n")
	job("j1")
	if k.SecondJob {
		job("j2")
	}
	fmt.Fprintf(&b, "remote_write:\n- url: %s\n  bearer_token: %s\n", k.RWUrl, k.Bearer)
	fmt.Fprintf(&b, "  write_relabel_configs:\n  - source_labels: [__name__]\n    regex: '%s'\n    action: drop\n", k.WriteRegex)
	fmt.Fprintf(&b, "alerting:\n  alert_relabel_configs:\n  - source_labels: [severity]\n    regex: '%s'\n    action: drop\n", k.AlertRegex)
	if style == 1 {
		b.WriteString("\n# trailing comment\n")
	}
	return b.String()
}

type cfgEdit struct {
	Name     string
	Apply    func(k *cfgKnobs)
	MustDiff bool // the edit changes a setting other than external labels
}

func cfgEdits() []cfgEdit {
	return []cfgEdit{
		{"interval", func(k *cfgKnobs) { k.Interval = "30s" }, true},
		{"metrics_path", func(k *cfgKnobs) { k.JobPath = "/m2" }, true},
		{"relabel regex", func(k *cfgKnobs) { k.Regex = "prod|staging" }, true},
		{"relabel regex (anchoring only)", func(k *cfgKnobs) { k.Regex = "(prod|dev)" }, true},
		{"relabel action", func(k *cfgKnobs) { k.RegexAction = "drop" }, true},
		{"metric relabel regex", func(k *cfgKnobs) { k.MetricRegex = "go_gc.*" }, true},
		{"basic auth password", func(k *cfgKnobs) { k.Password = "pw2" }, true},
		{"remote write bearer token", func(k *cfgKnobs) { k.Bearer = "tok2" }, true},
		{"static target", func(k *cfgKnobs) { k.SDTarget = "10.0.0.2:80" }, true},
		{"file sd refresh interval", func(k *cfgKnobs) { k.SDRefresh = "31s" }, true},
		{"remote write url", func(k *cfgKnobs) { k.RWUrl = "http://rw2/api" }, true},
		{"honor_labels", func(k *cfgKnobs) { k.HonorLabels = true }, true},
		{"added job", func(k *cfgKnobs) { k.SecondJob = true }, true},
		{"replacement", func(k *cfgKnobs) { k.Replacement = "x$1" }, true},
		{"hashmod modulus", func(k *cfgKnobs) { k.Modulus = 5 }, true},
		{"write relabel regex", func(k *cfgKnobs) { k.WriteRegex = "tmp_[a-z]+" }, true},
		{"alert relabel regex", func(k *cfgKnobs) { k.AlertRegex = "info" }, true},
		{"external label", func(k *cfgKnobs) { k.ExtLabel = "c2" }, false},
	}
}

func configHashOf(text string) (string, *config.Config, error) {
	cm := prom.NewConfigManager()
	if err := cm.ReloadFromRaw([]byte(text)); err != nil {
		return "", nil, err
	}
	return cm.ConfigInfo().ConfigHash, cm.ConfigInfo().Config, nil
}

func cfgHashChild(file string) int {
	data, err := os.ReadFile(file)
	if err != nil {
		return 3
	}
	h, _, err := configHashOf(string(data))
	if err != nil {
		return 4
	}
	fmt.Println(h)
	return 0
}

func runCfgHash(a Args) *Result {
	res := newResult("cfghash", a.seed, a.tier)
	res.Rule = "a base configuration (global, two-rule relabeling, metric relabeling, basic auth, static + file SD, remote write with bearer token and write-relabel rule, alert relabel rule) under random knob settings; for each: every single-setting edit of the catalogue (scalars, list entries, regexes incl. anchoring-only changes, secrets, SD options, added job), three re-formattings and an external-label edit; the parsed config is dumped by reflection (unexported fields included) and the Lean model of hashstructure must reproduce ConfigHash; every configuration is also loaded from files in two different directories (relative file paths in half of them), every 4th is also hashed in a child process; non-trivial = an edit pair; distinct by configuration text"
	rng := NewRng(a.seed)
	n := 6
	if a.tier == "thorough" {
		n = 60
	}
	if a.n > 0 {
		n = a.n
	}
	self, _ := os.Executable()
	work := a.workdir
	if work == "" {
		work = os.TempDir()
	}
	_ = os.MkdirAll(work, 0755)
	type item struct {
		text string
		hash string
	}
	var items []item
	var lines []string
	seen := map[string]bool{}
	addDump := func(text string) string {
		h, cfg, err := configHashOf(text)
		if err != nil {
			res.Notes = append(res.Notes, "config rejected: "+err.Error())
			return ""
		}
		if seen[text] {
			return h
		}
		seen[text] = true
		// what ReloadFromRaw hashes: the config with blanked external labels, and its rendering
		saved := cfg.GlobalConfig.ExternalLabels
		cfg.GlobalConfig.ExternalLabels = []labels.Label{}
		rendered := cfg.String()
		cfg.GlobalConfig.ExternalLabels = saved
		d := &dumper{w: &ints{}}
		d.w.add(int64(len(items)))
		d.dump(reflect.ValueOf(cfg), true)
		d.bytes([]byte(rendered))
		for _, u := range d.unsupported {
			res.Mismatch = capViol(res.Mismatch, Violation{Property: "C16", Clause: "unsupported", Signature: "cfghash/unsupported",
				What: "the configuration contains something the hashstructure model does not cover: " + u}, 3)
		}
		lines = append(lines, d.w.String()+" "+h)
		items = append(items, item{text, h})
		res.count("dump_nodes_" + fmt.Sprint(d.nodes/1000) + "k")
		return h
	}
	pairs := 0
	for i := 0; i < n; i++ {
		k := baseKnobs()
		r := rng.Fork()
		// vary the base
		if r.Chance(50) {
			k.Interval = r.PickS("10s", "1m")
		}
		if r.Chance(50) {
			k.Regex = r.PickS("a.*", "x|y|z", "[a-c]+")
		}
		if r.Chance(50) {
			k.Password = r.PickS("s3cr3t", "p w", "x:y")
		}
		if r.Chance(30) {
			k.SecondJob = true
		}
		if r.Chance(50) {
			k.RelPaths = true
		}
		baseText := k.yaml(0)
		h0 := addDump(baseText)
		if h0 == "" {
			continue
		}
		res.Evaluations++
		for style := 1; style <= 2; style++ {
			if h := addDump(k.yaml(style)); h != "" && h != h0 {
				res.ImplViol = capViol(res.ImplViol, Violation{Property: "C16", Clause: "formatting", Signature: "C16/formatting",
					What: "re-formatting the same configuration changes the hash", Case: map[string]interface{}{"case": map[string]string{"a": baseText, "b": k.yaml(style)}}}, 3)
			}
			res.Evaluations++
		}
		// one long-lived manager (a coordinator or sidecar that is reloaded, not restarted): after every
		// reload its hash has to be the hash a fresh process computes for the same content
		longLived := prom.NewConfigManager()
		var handed []string
		longLived.AddReloadCallbacks(func(c *prom.ConfigInfo) error { handed = append(handed, c.ConfigHash); return nil })
		_ = longLived.ReloadFromRaw([]byte(baseText))
		for _, e := range cfgEdits() {
			k2 := k
			e.Apply(&k2)
			t2 := k2.yaml(0)
			if t2 == baseText {
				continue
			}
			h := addDump(t2)
			if h == "" {
				continue
			}
			for step, tx := range []struct{ text, want string }{{t2, h}, {baseText, h0}} {
				if err := longLived.ReloadFromRaw([]byte(tx.text)); err == nil {
					res.count("long_lived_reloads")
					if got := longLived.ConfigInfo().ConfigHash; got != tx.want {
						res.ImplViol = capViol(res.ImplViol, Violation{Property: "C16", Clause: "history", Signature: "C16/history/" + strings.ReplaceAll(e.Name, " ", "-"),
							What: fmt.Sprintf("a manager that is reloaded (edit: %s, step %d) reports hash %s, a fresh process computes %s for the same content: the hash depends on what was loaded before", e.Name, step, got, tx.want),
							Case: map[string]interface{}{"case": map[string]string{"edit": e.Name, "a": baseText, "b": t2}, "observed": map[string]string{"reloaded": got, "fresh": tx.want}}}, 2)
					}
				}
			}
			// the extra configuration (stop-scrape reason) is not part of the configuration text: setting,
			// changing and clearing it leaves the hash of the loaded configuration, and what a callback is handed
			for _, reason := range []string{"stopped by test", "stopped again", ""} {
				handed = nil
				if err := longLived.UpdateExtraConfig(prom.ExtraConfig{StopScrapeReason: reason}); err == nil {
					res.count("long_lived_extra_config_updates")
					got := longLived.ConfigInfo().ConfigHash
					bad := got != h0
					for _, x := range handed {
						if x != h0 {
							bad, got = true, x
						}
					}
					if bad {
						res.ImplViol = capViol(res.ImplViol, Violation{Property: "C16", Clause: "history", Signature: "C16/history/extra-config",
							What: fmt.Sprintf("after UpdateExtraConfig(stop reason %q) the manager reports / hands to its callbacks hash %q, the loaded configuration has hash %s", reason, got, h0),
							Case: map[string]interface{}{"case": map[string]string{"edit": "extra config " + reason, "a": baseText, "b": baseText}, "observed": map[string]string{"reloaded": got, "fresh": h0}}}, 2)
					}
				}
			}
			pairs++
			res.Evaluations++
			full := map[string]interface{}{"case": map[string]string{"edit": e.Name, "a": baseText, "b": t2}, "observed": map[string]string{"hashA": h0, "hashB": h}}
			if e.MustDiff && h == h0 {
				res.ImplViol = capViol(res.ImplViol, Violation{Property: "C16", Clause: "sensitive", Signature: "C16/sensitive/" + strings.ReplaceAll(e.Name, " ", "-"),
					What: "editing only the " + e.Name + " leaves the configuration hash unchanged", Case: full}, 2)
			}
			if !e.MustDiff && h != h0 {
				res.ImplViol = capViol(res.ImplViol, Violation{Property: "C16", Clause: "extlabels", Signature: "C16/extlabels",
					What: "an external-label edit changes the configuration hash", Case: full}, 2)
			}
		}
		// the coordinator loads the file from its own directory, the sidecar gets the text: the same
		// content must hash alike wherever it was read from
		for di, dir := range []string{fmt.Sprintf("%s/cfgdir-%d-a", work, os.Getpid()), fmt.Sprintf("%s/cfgdir-%d-b/nested", work, os.Getpid())} {
			_ = os.MkdirAll(dir, 0755)
			f := dir + "/prometheus.yml"
			_ = os.WriteFile(f, []byte(baseText), 0644)
			cm := prom.NewConfigManager()
			err := cm.ReloadFromFile(f)
			_ = os.RemoveAll(fmt.Sprintf("%s/cfgdir-%d-%s", work, os.Getpid(), []string{"a", "b"}[di]))
			if err != nil || cm.ConfigInfo().ConfigHash != h0 {
				res.ImplViol = capViol(res.ImplViol, Violation{Property: "C16", Clause: "location", Signature: "C16/location",
					What: "the same configuration text hashes differently when it is loaded from a file in " + dir, Case: map[string]interface{}{"case": map[string]string{"a": baseText}}}, 2)
			}
			res.count("loaded_from_file")
		}
		if i%4 == 0 {
			f := fmt.Sprintf("%s/cfg-%d-%d.yaml", work, os.Getpid(), i)
			_ = os.WriteFile(f, []byte(baseText), 0644)
			out, err := exec.Command(self, "cfghash-child", f).Output()
			_ = os.Remove(f)
			if err != nil || strings.TrimSpace(string(out)) != h0 {
				res.ImplViol = capViol(res.ImplViol, Violation{Property: "C16", Clause: "process", Signature: "C16/process",
					What: "another process computes a different hash for the same configuration text", Case: map[string]interface{}{"case": map[string]string{"a": baseText}}}, 2)
			}
			res.count("child_process_runs")
		}
	}
	answers, err := runDriver(a.driver, "cfghash", lines)
	if err != nil {
		res.Mismatch = append(res.Mismatch, Violation{Property: "C16", Clause: "driver", Signature: "driver-failure", What: err.Error()})
		return res
	}
	for i, ans := range answers {
		full := map[string]interface{}{"case": map[string]string{"config": items[i].text}, "observed": map[string]string{"ConfigHash": items[i].hash}}
		if !strings.HasPrefix(ans, "case ") {
			res.Mismatch = append(res.Mismatch, Violation{Property: "C16", Clause: "bad-op", Signature: "bad-op", What: ans, Case: full})
			continue
		}
		f := fieldsAfter(ans, "case")
		res.Traces++
		if i < 2 {
			res.addSample(full)
		}
		if f["match"] != "1" {
			res.Mismatch = capViol(res.Mismatch, Violation{Property: "C16", Clause: "correspondence", Signature: "cfghash/nomatch",
				What: "HS.configHash (Lean model of hashstructure over the reflected config) differs from ConfigHash (" + ans + ")", Case: full}, 3)
		}
	}
	res.Distinct = pairs
	_ = json.Marshal
	_ = binMarshT
	return res
}
