package main

// Engine "replicas" (C19): the real Coordinator with several replicas in one runOnce; what the
// shards of one replica receive must be what they receive when that replica is coordinated alone,
// and the explorer's status objects must not be written by coordination.

import (
	"encoding/json"
	"fmt"
	"io"
	"strings"

	"github.com/prometheus/client_golang/prometheus"
	"github.com/sirupsen/logrus"

	"tkestack.io/kvass/pkg/coordinator"
	"tkestack.io/kvass/pkg/discovery"
	"tkestack.io/kvass/pkg/prom"
	"tkestack.io/kvass/pkg/shard"
	"tkestack.io/kvass/pkg/target"
)

type RCase struct {
	Base    CCase   `json:"base"` // options, active, explorer (probes unused)
	Reps    []CCase `json:"replicas"`
	ListErr []bool  `json:"listErr"` // Shards() of that replica fails
	Cycles  int     `json:"cycles"`
}

type listErrMgr struct{ shard.Manager }

func (l *listErrMgr) Shards() ([]*shard.Shard, error) { return nil, fmt.Errorf("scripted list error") }
func (l *listErrMgr) ChangeScale(int32) error         { return nil }

type explSnap struct {
	Health        string
	Series, Total int64
	State         string
	Times         uint64
	Shards        int
}

func snapExplore(m map[uint64]*target.ScrapeStatus) map[uint64]explSnap {
	out := map[uint64]explSnap{}
	for h, s := range m {
		out[h] = explSnap{string(s.Health), s.Series, s.TotalSeries, s.TargetState, s.ScrapeTimes, 0}
	}
	return out
}

// runReplicas runs `cycles` cycles of the real coordinator over the given replicas (nil entry = not present)
func runReplicas(rc *RCase, present []bool) (obs [][]CObs, explChanged string) {
	lg := logrus.New()
	lg.SetOutput(io.Discard)
	cfg := &prom.ConfigInfo{ConfigHash: "cfg-hash", RawContent: []byte("global: {}"), ExtraConfig: &prom.ExtraConfig{}}
	explore := map[uint64]*target.ScrapeStatus{}
	for _, s := range rc.Base.Explore {
		explore[s.Hash] = s.status()
	}
	before := snapExplore(explore)
	active := coordActive(&rc.Base)
	obs = make([][]CObs, len(rc.Reps))
	// one long-lived coordinator for all cycles of a case (a cycle has to be a function of what the
	// replicas' shards report in it, also per replica); the managers of a cycle are swapped in
	rep := &coordRep{}
	co := coordinator.NewCoordinator(coordOption(&rc.Base), rep,
		func() *prom.ConfigInfo { return cfg },
		func(h uint64) *target.ScrapeStatus { return explore[h] },
		func() map[uint64]*discovery.SDTargets { return active },
		prometheus.NewRegistry(), lg)
	for cyc := 0; cyc < rc.Cycles; cyc++ {
		var mgrs []shard.Manager
		cur := make([]*CObs, len(rc.Reps))
		for i := range rc.Reps {
			if !present[i] {
				continue
			}
			c := rc.Reps[i]
			o := &CObs{Scales: []int64{}, Reqs: make([][]CReq, len(c.Probes))}
			for k := range o.Reqs {
				o.Reqs[k] = []CReq{}
			}
			cur[i] = o
			if rc.ListErr[i] {
				mgrs = append(mgrs, &listErrMgr{})
				continue
			}
			cc := c
			mgrs = append(mgrs, &coordMgr{c: &cc, obs: o, cfgHash: cfg.ConfigHash})
		}
		rep.ms = mgrs
		func() {
			defer func() {
				if r := recover(); r != nil {
					for _, o := range cur {
						if o != nil {
							o.Crashed = true
						}
					}
				}
			}()
			_ = co.VerifRunOnce()
		}()
		for i, o := range cur {
			if o != nil {
				obs[i] = append(obs[i], *o)
			}
		}
		after := snapExplore(explore)
		for h, b := range before {
			if a := after[h]; a != b && explChanged == "" {
				explChanged = fmt.Sprintf("explorer status of target %d changed during coordination cycle %d: %+v -> %+v", h, cyc+1, b, a)
			}
		}
	}
	return obs, explChanged
}

func genReplicaCase(r *Rng) *RCase {
	base := genCoordCase(r.Fork(), false)
	rc := &RCase{Base: *base, Cycles: 1 + r.Intn(2)}
	rc.Base.Probes = nil
	rc.Base.ScaleErr1 = false
	n := 2 + r.Intn(2)
	for i := 0; i < n; i++ {
		c := genCoordCase(r.Fork(), false)
		c.Opt, c.Active, c.Explore = rc.Base.Opt, rc.Base.Active, rc.Base.Explore
		// statuses must talk about the shared universe
		if r.Chance(20) { // an entirely unready replica
			for k := range c.Probes {
				c.Probes[k].Ready = false
			}
		}
		rc.Reps = append(rc.Reps, *c)
		rc.ListErr = append(rc.ListErr, r.Chance(12))
	}
	return rc
}

func runReplicasEngine(a Args) *Result {
	res := newResult("replicas", a.seed, a.tier)
	res.Rule = "2-3 replicas sharing options, discovered set and explorer (one failing to list its shards, failing to scale, entirely unready, or holding a different placement of the same targets), 1-2 cycles of the real runOnce on one long-lived Coordinator; each replica's observed requests and scale calls are matched against Coord.cycle of that replica alone, and explorer status objects are compared before/after; non-trivial = the matched cycle did some work (assign, relief, gc, scale change)"
	rng := NewRng(a.seed)
	n := 500
	if a.tier == "thorough" {
		n = 8000
	}
	if a.n > 0 {
		n = a.n
	}
	type item struct {
		rc  *RCase
		rep int
		cyc int
		o   CObs
	}
	var items []item
	var lines []string
	for i := 0; i < n; i++ {
		rc := genReplicaCase(rng.Fork())
		present := make([]bool, len(rc.Reps))
		for k := range present {
			present[k] = true
		}
		for run := 0; run < 2; run++ {
			obs, changed := runReplicas(rc, present)
			res.Evaluations++
			if changed != "" {
				res.ImplViol = capViol(res.ImplViol, Violation{Property: "C19", Clause: "noSharedWrite", Signature: "C19/noSharedWrite",
					What: changed, Case: map[string]interface{}{"case": rc}}, 3)
			}
			for rep := range rc.Reps {
				if rc.ListErr[rep] {
					for _, o := range obs[rep] {
						if len(o.Scales) != 0 {
							res.ImplViol = capViol(res.ImplViol, Violation{Property: "C19", Clause: "listErr", Signature: "C19/listErr",
								What: "a replica whose shard listing failed was scaled", Case: map[string]interface{}{"case": rc}}, 3)
						}
					}
					continue
				}
				// only the first cycle has the scripted reports as its input (the scripts do not evolve)
				for cyc, o := range obs[rep] {
					c := rc.Reps[rep]
					items = append(items, item{rc, rep, cyc, o})
					lines = append(lines, encCoord(len(items)-1, &c, &o))
				}
			}
		}
	}
	answers, err := runDriver(a.driver, "coord", lines)
	if err != nil {
		res.Mismatch = append(res.Mismatch, Violation{Property: "C19", Clause: "driver", Signature: "driver-failure", What: err.Error()})
		return res
	}
	distinct := map[string]bool{}
	for i, ans := range answers {
		it := items[i]
		full := map[string]interface{}{"case": it.rc, "replica": it.rep, "cycle": it.cyc + 1, "observed": it.o}
		if !strings.HasPrefix(ans, "case ") {
			res.Mismatch = append(res.Mismatch, Violation{Property: "C19", Clause: "bad-op", Signature: "bad-op", What: ans, Case: full})
			continue
		}
		top := fieldsAfter(ans, "case", "matched", "impl", "model", "tags")
		tags := ""
		if idx := strings.Index(ans, " tags "); idx >= 0 {
			tags = strings.TrimSpace(ans[idx+6:])
		}
		if tags != "" {
			distinct[lines[i][strings.Index(lines[i], " ")+1:]] = true
		}
		res.Traces++
		res.count(fmt.Sprintf("replicas_%d", len(it.rc.Reps)))
		if i < 2 {
			res.addSample(full)
		}
		if top["match"] != "1" {
			res.ImplViol = capViol(res.ImplViol, Violation{Property: "C19", Clause: "independent", Signature: "C19/independent",
				What: fmt.Sprintf("what replica %d received in cycle %d next to the other replicas is not an outcome of coordinating it alone (no schedule of Coord.cycle on its own reports matches)", it.rep, it.cyc+1), Case: full, Line: lines[i]}, 3)
		}
	}
	res.Distinct = len(distinct)
	_ = json.Marshal
	return res
}
