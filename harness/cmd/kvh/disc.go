package main

// Engine "disc": real TargetsDiscovery (fed through Run's channel) + ApplyConfig + Explore table (C17).

import (
	"context"
	"fmt"
	"reflect"
	"sort"
	"strconv"
	"strings"
	"time"

	"github.com/prometheus/client_golang/prometheus"
	"github.com/prometheus/common/model"
	"github.com/prometheus/prometheus/discovery/targetgroup"

	"tkestack.io/kvass/pkg/discovery"
	"tkestack.io/kvass/pkg/explore"
	"tkestack.io/kvass/pkg/prom"
	"tkestack.io/kvass/pkg/scrape"
)

type DDT struct {
	Kind int `json:"kind"` // 0 active 1 dropped 2 rejected
	Key  int `json:"key"`
}
type DJob struct {
	Job    int     `json:"job"`
	Groups [][]DDT `json:"groups"`
}
type DOp struct {
	Kind   string `json:"kind"` // update | reload
	Update []DJob `json:"update,omitempty"`
	Jobs   []int  `json:"jobs,omitempty"`
	Edit   int    `json:"edit,omitempty"` // reload: variant of a further relabel rule that matches nothing (settings of kept jobs change)
}
type DCase struct {
	Ops []DOp `json:"ops"`
}
type DObs struct {
	Active   map[int][]int `json:"active"`
	Dropped  map[int][]int `json:"dropped"`
	Explorer []int         `json:"explorer"`
}

func discConfig(jobs []int, edit int) (*prom.ConfigInfo, error) {
	var b strings.Builder
	b.WriteString("global:\n  scrape_interval: 15s\nscrape_configs:\n")
	for _, j := range jobs {
		fmt.Fprintf(&b, "- job_name: j%d\n  relabel_configs:\n  - source_labels: [dropme]\n    regex: yes\n    action: drop\n", j)
		if edit != 0 {
			fmt.Fprintf(&b, "  - source_labels: [nosuchlabel]\n    regex: never%d\n    action: drop\n", edit)
		}
	}
	if len(jobs) == 0 {
		b.Reset()
		b.WriteString("global:\n  scrape_interval: 15s\nscrape_configs: []\n")
	}
	cm := prom.NewConfigManager()
	if err := cm.ReloadFromRaw([]byte(b.String())); err != nil {
		return nil, err
	}
	return cm.ConfigInfo(), nil
}

func keyOfAddr(addr string) (job, key int, ok bool) {
	// 10.<kind>.<job>.<key>:80
	host := strings.TrimSuffix(addr, ":80")
	p := strings.Split(host, ".")
	if len(p) != 4 {
		return 0, 0, false
	}
	j, e1 := strconv.Atoi(p[2])
	k, e2 := strconv.Atoi(p[3])
	return j, k, e1 == nil && e2 == nil
}

func runDiscCase(c *DCase) (string, []DObs, string, error) {
	lg := quietLog()
	td := discovery.New(lg)
	sm := scrape.New(false, lg)
	exp := explore.New(sm, prometheus.NewRegistry(), lg)
	ctx, cancel := context.WithCancel(context.Background())
	defer cancel()
	sdChan := make(chan map[string][]*targetgroup.Group)
	go func() { _ = td.Run(ctx, sdChan) }()
	w := &ints{}
	w.add(int64(len(c.Ops)))
	var allObs []DObs
	hashKey := map[uint64]int{}
	type snap struct {
		got  map[string][]*discovery.SDTargets
		copy map[string][]string
	}
	var snaps []snap
	snapshotViolation := ""
	for _, op := range c.Ops {
		switch op.Kind {
		case "reload":
			cfg, err := discConfig(op.Jobs, op.Edit)
			if err != nil {
				return "", nil, "", err
			}
			_ = sm.ApplyConfig(cfg)
			_ = exp.ApplyConfig(cfg)
			_ = td.ApplyConfig(cfg)
			w.add(1, int64(len(op.Jobs)))
			for _, j := range op.Jobs {
				w.add(int64(j))
			}
		case "update":
			m := map[string][]*targetgroup.Group{}
			w.add(0, int64(len(op.Update)))
			for _, dj := range op.Update {
				w.add(int64(dj.Job), int64(len(dj.Groups)))
				m[fmt.Sprintf("j%d", dj.Job)] = []*targetgroup.Group{}
				for gi, g := range dj.Groups {
					tg := &targetgroup.Group{Source: fmt.Sprintf("g%d", gi), Labels: model.LabelSet{"grp": model.LabelValue(fmt.Sprint(gi))}}
					w.add(int64(len(g)))
					for _, t := range g {
						switch t.Kind {
						case 0:
							tg.Targets = append(tg.Targets, model.LabelSet{"__address__": model.LabelValue(fmt.Sprintf("10.0.%d.%d:80", dj.Job, t.Key))})
							w.add(0, int64(1000*dj.Job+t.Key))
						case 1:
							tg.Targets = append(tg.Targets, model.LabelSet{"__address__": model.LabelValue(fmt.Sprintf("10.9.%d.%d:80", dj.Job, t.Key)), "dropme": "yes"})
							w.add(1, int64(1000*dj.Job+t.Key))
						default:
							tg.Targets = append(tg.Targets, model.LabelSet{"foo": "no-address"})
							w.add(2)
						}
					}
					m[fmt.Sprintf("j%d", dj.Job)] = append(m[fmt.Sprintf("j%d", dj.Job)], tg)
				}
			}
			sdChan <- m
			select {
			case ts := <-td.ActiveTargetsChan():
				exp.UpdateTargets(ts)
			case <-time.After(5 * time.Second):
				return "", nil, "", fmt.Errorf("no active-targets notification")
			}
		}
		o := DObs{Active: map[int][]int{}, Dropped: map[int][]int{}, Explorer: []int{}}
		act := td.ActiveTargets()
		cp := map[string][]string{}
		for job, ts := range act {
			var jn int
			fmt.Sscanf(job, "j%d", &jn)
			o.Active[jn] = []int{}
			for _, t := range ts {
				_, k, ok := keyOfAddr(t.ShardTarget.Labels.Get("__address__"))
				if !ok {
					k = -1
				}
				o.Active[jn] = append(o.Active[jn], k+1000*jn)
				hashKey[t.ShardTarget.Hash] = k + 1000*jn
				cp[job] = append(cp[job], fmt.Sprint(t.ShardTarget.Hash))
			}
		}
		snaps = append(snaps, snap{act, cp})
		for job, ts := range td.DropTargets() {
			var jn int
			fmt.Sscanf(job, "j%d", &jn)
			o.Dropped[jn] = []int{}
			for _, t := range ts {
				_, k, ok := keyOfAddr(t.PromTarget.DiscoveredLabels().Get("__address__"))
				if !ok {
					k = -1
				}
				o.Dropped[jn] = append(o.Dropped[jn], k+1000*jn)
			}
		}
		// the by-hash view (what the coordinator assigns from) is exactly the active view of this moment
		byHash := td.ActiveTargetsByHash()
		cur := map[uint64]bool{}
		for _, ts := range act {
			for _, t := range ts {
				cur[t.ShardTarget.Hash] = true
			}
		}
		for h := range byHash {
			if !cur[h] {
				snapshotViolation = fmt.Sprintf("after op %d ActiveTargetsByHash lists a target that ActiveTargets does not (any more)", len(allObs)+1)
			}
		}
		for h := range cur {
			if byHash[h] == nil {
				snapshotViolation = fmt.Sprintf("after op %d ActiveTargetsByHash misses an active target", len(allObs)+1)
			}
		}
		for h, k := range hashKey {
			if exp.Get(h) != nil {
				o.Explorer = append(o.Explorer, k)
			}
		}
		sort.Ints(o.Explorer)
		allObs = append(allObs, o)
		jobs := []int{}
		for j := range o.Active {
			jobs = append(jobs, j)
		}
		sort.Ints(jobs)
		w.add(int64(len(jobs)))
		for _, j := range jobs {
			w.add(int64(j), int64(len(o.Active[j])))
			for _, k := range o.Active[j] {
				w.add(int64(k))
			}
		}
		djobs := []int{}
		for j := range o.Dropped {
			djobs = append(djobs, j)
		}
		sort.Ints(djobs)
		w.add(int64(len(djobs)))
		for _, j := range djobs {
			w.add(int64(j), int64(len(o.Dropped[j])))
			for _, k := range o.Dropped[j] {
				w.add(int64(k))
			}
		}
		w.add(int64(len(o.Explorer)))
		for _, k := range o.Explorer {
			w.add(int64(k))
		}
	}
	// every read was a snapshot: none of the returned maps changed afterwards
	for i, s := range snaps {
		cp := map[string][]string{}
		for job, ts := range s.got {
			for _, t := range ts {
				cp[job] = append(cp[job], fmt.Sprint(t.ShardTarget.Hash))
			}
		}
		if !reflect.DeepEqual(cp, s.copy) {
			snapshotViolation = fmt.Sprintf("the map returned by ActiveTargets() after op %d changed later", i+1)
		}
	}
	return w.String(), allObs, snapshotViolation, nil
}

func genDiscCase(r *Rng) *DCase {
	c := &DCase{}
	n := 3 + r.Intn(10)
	jobs := []int{}
	// a stable service discovery sends a job the same groups again and again (the discovery manager
	// re-sends every job whenever one of them changes), also across reloads that drop and re-add the job
	lastGroups := map[int][][]DDT{}
	for i := 0; i < n; i++ {
		if i == 0 || r.Chance(30) {
			js := []int{}
			for j := 0; j < 4; j++ {
				if r.Chance(60) {
					js = append(js, j)
				}
			}
			r2 := r.Intn(len(js) + 1)
			if r2 < len(js) { // vary the order
				js[0], js[r2] = js[r2], js[0]
			}
			jobs = js
			c.Ops = append(c.Ops, DOp{Kind: "reload", Jobs: js, Edit: r.Intn(3)})
			continue
		}
		op := DOp{Kind: "update"}
		full := r.Chance(70) // full update (all configured jobs) or a partial first round
		for j := 0; j < 4; j++ {
			inCfg := false
			for _, x := range jobs {
				if x == j {
					inCfg = true
				}
			}
			if (inCfg && (full || r.Chance(40))) || (!inCfg && r.Chance(10)) {
				dj := DJob{Job: j}
				if prev, ok := lastGroups[j]; ok && r.Chance(45) {
					dj.Groups = prev
					op.Update = append(op.Update, dj)
					continue
				}
				ng := r.Intn(3)
				for g := 0; g < ng; g++ {
					grp := []DDT{}
					nt := r.Intn(5)
					for t := 0; t < nt; t++ {
						switch k := r.Intn(10); {
						case k < 6:
							grp = append(grp, DDT{0, 10*g + r.Intn(4)}) // collisions inside a group; distinct across groups
						case k < 9:
							grp = append(grp, DDT{1, 10*g + t})
						default:
							grp = append(grp, DDT{2, 0})
						}
					}
					dj.Groups = append(dj.Groups, grp)
				}
				if dj.Groups == nil {
					dj.Groups = [][]DDT{}
				}
				lastGroups[j] = dj.Groups
				op.Update = append(op.Update, dj)
			}
		}
		if op.Update == nil {
			op.Update = []DJob{}
		}
		c.Ops = append(c.Ops, op)
	}
	return c
}

func runDisc(a Args) *Result {
	res := newResult("disc", a.seed, a.tier)
	res.Rule = "random histories of full and partial discovery updates (groups with colliding targets, targets dropped by relabeling, address-less targets) and reloads that add/remove/keep/reorder jobs and edit the relabel rules of kept jobs, through TargetsDiscovery.Run's channel, ApplyConfig and Explore.UpdateTargets/ApplyConfig; every returned map is retained and re-compared at the end (snapshot); non-trivial = contains a reload that removes a job, several dropped targets in a group, or a rejected target"
	rng := NewRng(a.seed)
	n := 250
	if a.tier == "thorough" {
		n = 5000
	}
	if a.n > 0 {
		n = a.n
	}
	var lines []string
	var kept []*DCase
	var keptObs [][]DObs
	for i := 0; i < n; i++ {
		c := genDiscCase(rng.Fork())
		line, obs, snapViol, err := runDiscCase(c)
		if err != nil {
			res.Notes = append(res.Notes, "harness: "+err.Error())
			continue
		}
		res.Evaluations += len(c.Ops)
		if snapViol != "" {
			res.ImplViol = capViol(res.ImplViol, Violation{Property: "C17", Clause: "snapshot", Signature: "C17/snapshot", What: snapViol,
				Case: map[string]interface{}{"case": c}}, 3)
		}
		kept = append(kept, c)
		keptObs = append(keptObs, obs)
		lines = append(lines, fmt.Sprintf("%d %s", len(kept)-1, line))
	}
	answers, err := runDriver(a.driver, "disc", lines)
	if err != nil {
		res.Mismatch = append(res.Mismatch, Violation{Property: "C17", Clause: "driver", Signature: "driver-failure", What: err.Error()})
		return res
	}
	distinct := map[string]bool{}
	for i, ans := range answers {
		full := map[string]interface{}{"case": kept[i], "observed": keptObs[i]}
		if !strings.HasPrefix(ans, "case ") {
			res.Mismatch = append(res.Mismatch, Violation{Property: "C17", Clause: "bad-op", Signature: "bad-op", What: ans, Case: full, Line: lines[i]})
			continue
		}
		top := fieldsAfter(ans, "case", "impl", "tags")
		impl := fieldsAfter(ans, "impl", "tags")
		tags := ""
		if idx := strings.Index(ans, " tags "); idx >= 0 {
			tags = strings.TrimSpace(ans[idx+6:])
		}
		nt := false
		for _, t := range strings.Split(tags, ",") {
			if t != "" {
				res.count("tag_" + t)
			}
			if t == "reloadRemoves" || t == "manyDropped" || t == "rejectedTarget" {
				nt = true
			}
		}
		if nt {
			distinct[lines[i][strings.Index(lines[i], " ")+1:]] = true
		}
		res.Traces++
		if i < 2 {
			res.addSample(full)
		}
		if top["match"] != "1" {
			res.Mismatch = capViol(res.Mismatch, Violation{Property: "C17", Clause: "correspondence", Signature: "disc/nomatch",
				What: "Disc.step and the real discovery / explorer disagree after op " + strings.TrimPrefix(top["match"], "0@"), Case: full, Line: lines[i]}, 3)
		}
		if v := impl["C17"]; v != "ok" {
			cl := v
			if k := strings.Index(v, "@"); k >= 0 {
				cl = v[:k]
			}
			res.ImplViol = capViol(res.ImplViol, Violation{Property: "C17", Clause: cl, Signature: "C17/" + cl,
				What: "the " + cl + " set is not the translation of the job's latest update (" + v + ")", Case: full, Line: lines[i]}, 3)
		}
	}
	res.Distinct = len(distinct)
	return res
}
