package main

var coordGlobal = map[string]string{
	"target.StateNormal":     "TState.normal",
	"target.StateInTransfer": "TState.inTransfer",
	"scrape.HealthGood":      "Health.good",
	"scrape.HealthBad":       "Health.bad",
	"scrape.HealthUnknown":   "Health.unknown",
	"minWaitScrapeTimes":     "minWait",

	"c.option.MaxHeadSeries":     "o.maxHead",
	"c.option.MaxProcessSeries":  "o.maxProc",
	"c.option.MaxShard":          "o.maxShard",
	"c.option.MinShard":          "o.minShard",
	"c.option.MaxIdleTime != 0":  "o.idleOn",
	"c.option.MaxIdleTime == 0":  "!o.idleOn",
	"c.option.DisableAlleviate":  "o.disableAlleviate",
	"!c.option.DisableAlleviate": "!o.disableAlleviate",

	"tar.TargetState": "tar.state", "tar.Health": "tar.health", "tar.ScrapeTimes": "tar.times",
	"tar.Series": "tar.series", "tar.TotalSeries": "tar.total",
	"st.TargetState": "st.state", "st.Health": "st.health", "st.ScrapeTimes": "st.times",
	"st.Series": "st.series", "st.TotalSeries": "st.total",
	"status.TargetState": "status.state", "status.Health": "status.health", "status.ScrapeTimes": "status.times",
	"status.Series": "status.series", "status.TotalSeries": "status.total",

	"s.runtime.HeadSeries": "s.head", "s.runtime.ProcessSeries": "s.proc",
	"os.runtime.HeadSeries": "os.head", "os.runtime.ProcessSeries": "os.proc",
	"other.runtime.HeadSeries": "other.head", "other.runtime.ProcessSeries": "other.proc",
	"to.runtime.HeadSeries": "to.head", "to.runtime.ProcessSeries": "to.proc",
	"sd.runtime.HeadSeries": "sd.head", "sd.runtime.ProcessSeries": "sd.proc",

	"s.runtime.IdleStartAt != nil":    "s.idleSet",
	"s.runtime.IdleStartAt == nil":    "!s.idleSet",
	"from.runtime.IdleStartAt != nil": "s.idleSet",
	"from.runtime.IdleStartAt == nil": "!s.idleSet",
	"time.Now().Sub(*s.runtime.IdleStartAt) > c.option.MaxIdleTime": "s.idleExpired",

	"sp.headSpace": "sp.head", "sp.processSpace": "sp.proc",
	"s.changeAble": "changeAble", "src.changeAble": "changeAble",
}

const rb = "pkg/coordinator/rebalance.go"
const co = "pkg/coordinator/coordinator.go"

func coordSites() []Site {
	st := "(tar : St)"
	return []Site{
		{Name: "minWait", File: rb, Sel: "const:minWaitScrapeTimes", Params: "", Ret: "Nat"},
		{Name: "loadSkipHead", File: rb, Func: "shardInfo.totalTargetsHeadSeries", Sel: "if:0:1", Params: st, Ret: "Bool"},
		{Name: "loadSkipProc", File: rb, Func: "shardInfo.totalTargetsTotalSeries", Sel: "if:0:1", Params: st, Ret: "Bool"},
		// gcTargets
		{Name: "gcYoung", File: rb, Func: "Coordinator.gcTargets", Sel: "if:1:9", Params: st, Ret: "Bool"},
		{Name: "gcHeld", File: rb, Func: "Coordinator.gcTargets", Sel: "if:3:9", Params: "(present : Bool)", Ret: "Bool",
			Leaves: map[string]string{"st != nil": "present"}},
		{Name: "gcOtherOk", File: rb, Func: "Coordinator.gcTargets", Sel: "if:4:9", Params: "(st : St)", Ret: "Bool",
			Leaves: map[string]string{"st != nil": "true"}},
		{Name: "gcRule2", File: rb, Func: "Coordinator.gcTargets", Sel: "if:5:9", Params: "(tar st : St)", Ret: "Bool"},
		{Name: "gcSame", File: rb, Func: "Coordinator.gcTargets", Sel: "if:6:9", Params: "(tar st : St)", Ret: "Bool"},
		{Name: "gcLess", File: rb, Func: "Coordinator.gcTargets", Sel: "if:7:9", Params: "(o : Opt) (s other : Rt) (i j : Nat)", Ret: "Bool",
			Leaves: map[string]string{"j < i": "decide (j < i)"}},
		{Name: "gcRevert", File: rb, Func: "Coordinator.gcTargets", Sel: "if:8:9", Params: "(held : Bool) (tar : St)", Ret: "Bool"},
		{Name: "gcRevertTo", File: rb, Func: "Coordinator.gcTargets", Sel: "assign:tar.TargetState:0", Ret: "TState"},
		// alleviateShards
		{Name: "allevDisabled", File: rb, Func: "Coordinator.alleviateShards", Sel: "if:0:4", Params: "(o : Opt)", Ret: "Bool"},
		{Name: "procTrigger", File: rb, Func: "Coordinator.alleviateShards", Sel: "if:1:4", Params: "(swr : Swr) (o : Opt) (s : Rt)", Ret: "Bool"},
		{Name: "procExpect", File: rb, Func: "Coordinator.alleviateShards", Sel: "call:c.alleviateShardProcessSeries:0:2", Params: "(swr : Swr) (o : Opt)", Ret: "Int"},
		{Name: "headThresholds", File: rb, Func: "Coordinator.alleviateShards", Sel: "assign:threshold:0", Ret: "table:maxSeriesRate:expectSeriesRate"},
		{Name: "headEnabled", File: rb, Func: "Coordinator.alleviateShards", Sel: "if:2:4", Params: "(o : Opt)", Ret: "Bool"},
		{Name: "headTrigger", File: rb, Func: "Coordinator.alleviateShards", Sel: "if:3:4", Params: "(swr : Swr) (o : Opt) (s : Rt) (maxRate : Rate)", Ret: "Bool",
			Leaves: map[string]string{"t.maxSeriesRate": "maxRate"}},
		{Name: "headExpect", File: rb, Func: "Coordinator.alleviateShards", Sel: "call:c.alleviateShardHeadSeries:0:2", Params: "(swr : Swr) (o : Opt) (expRate : Rate)", Ret: "Int",
			Leaves: map[string]string{"t.expectSeriesRate": "expRate"}},
		// alleviateShardHeadSeries
		{Name: "ahDone", File: rb, Func: "Coordinator.alleviateShardHeadSeries", Sel: "if:0:7", Params: "(total expSeries : Int)", Ret: "Bool"},
		{Name: "ahBreak", File: rb, Func: "Coordinator.alleviateShardHeadSeries", Sel: "if:1:7", Params: "(total expSeries : Int)", Ret: "Bool"},
		{Name: "ahSkip", File: rb, Func: "Coordinator.alleviateShardHeadSeries", Sel: "if:2:7", Params: st, Ret: "Bool"},
		{Name: "ahTooBig", File: rb, Func: "Coordinator.alleviateShardHeadSeries", Sel: "if:3:7", Params: "(o : Opt) (tar : St)", Ret: "Bool"},
		{Name: "ahDst", File: rb, Func: "Coordinator.alleviateShardHeadSeries", Sel: "if:5:7", Params: "(o : Opt) (os : Rt) (tar : St)", Ret: "Bool"},
		{Name: "ahSub", File: rb, Func: "Coordinator.alleviateShardHeadSeries", Sel: "assign:total:1", Params: "(total : Int) (tar : St)", Ret: "Int"},
		{Name: "ahNeed", File: rb, Func: "Coordinator.alleviateShardHeadSeries", Sel: "if:6:7", Params: "(total expSeries : Int)", Ret: "Bool"},
		{Name: "ahAmount", File: rb, Func: "Coordinator.alleviateShardHeadSeries", Sel: "return:2", Params: "(total expSeries : Int)", Ret: "Int"},
		// alleviateShardProcessSeries
		{Name: "apDone", File: rb, Func: "Coordinator.alleviateShardProcessSeries", Sel: "if:0:7", Params: "(total expSeries : Int)", Ret: "Bool"},
		{Name: "apBreak", File: rb, Func: "Coordinator.alleviateShardProcessSeries", Sel: "if:1:7", Params: "(total expSeries : Int)", Ret: "Bool"},
		{Name: "apSkip", File: rb, Func: "Coordinator.alleviateShardProcessSeries", Sel: "if:2:7", Params: st, Ret: "Bool"},
		{Name: "apTooBig", File: rb, Func: "Coordinator.alleviateShardProcessSeries", Sel: "if:3:7", Params: "(o : Opt) (tar : St)", Ret: "Bool"},
		{Name: "apDst", File: rb, Func: "Coordinator.alleviateShardProcessSeries", Sel: "if:5:7", Params: "(o : Opt) (os : Rt) (tar : St)", Ret: "Bool"},
		{Name: "apSub", File: rb, Func: "Coordinator.alleviateShardProcessSeries", Sel: "assign:total:1", Params: "(total : Int) (tar : St)", Ret: "Int"},
		{Name: "apNeed", File: rb, Func: "Coordinator.alleviateShardProcessSeries", Sel: "if:6:7", Params: "(total expSeries : Int)", Ret: "Bool"},
		{Name: "apAmount", File: rb, Func: "Coordinator.alleviateShardProcessSeries", Sel: "return:2", Params: "(total expSeries : Int)", Ret: "Int"},
		// transferTarget
		{Name: "transferProc", File: rb, Func: "transferTarget", Sel: "assign:to.runtime.ProcessSeries:0", Params: "(to : Rt) (tar : St)", Ret: "Int"},
		{Name: "transferHead", File: rb, Func: "transferTarget", Sel: "assign:to.runtime.HeadSeries:0", Params: "(to : Rt) (tar : St)", Ret: "Int"},
		// assignNoScrapingTargets
		{Name: "assignSkip", File: rb, Func: "Coordinator.assignNoScrapingTargets", Sel: "if:1:4", Params: "(status : St)", Ret: "Bool",
			Leaves: map[string]string{"status == nil": "false"}},
		{Name: "placeHead", File: rb, Func: "Coordinator.assignNoScrapingTargets", Sel: "assign:sd.runtime.HeadSeries:0", Params: "(sd : Rt) (status : St)", Ret: "Int"},
		{Name: "placeProc", File: rb, Func: "Coordinator.assignNoScrapingTargets", Sel: "assign:sd.runtime.ProcessSeries:0", Params: "(sd : Rt) (status : St)", Ret: "Int"},
		{Name: "spaceOfHead", File: rb, Func: "Coordinator.assignNoScrapingTargets", Sel: "assign:headSpace:0", Params: "(status : St)", Ret: "Int"},
		{Name: "spaceOfProc", File: rb, Func: "Coordinator.assignNoScrapingTargets", Sel: "assign:processSpace:0", Params: "(status : St)", Ret: "Int"},
		{Name: "tooBig", File: rb, Func: "Coordinator.isTooBig", Sel: "return:0", Params: "(o : Opt) (tar : St)", Ret: "Bool"},
		// getFreeShard
		{Name: "fitSkip", File: rb, Func: "Coordinator.getFreeShard", Sel: "if:0:5", Params: "(changeAble : Bool)", Ret: "Bool"},
		{Name: "fit", File: rb, Func: "Coordinator.getFreeShard", Sel: "if:1:5", Params: "(o : Opt) (s : Rt) (sp : Space)", Ret: "Bool"},
		{Name: "firstFit", File: rb, Func: "Coordinator.getFreeShard", Sel: "if:2:5", Params: "(o : Opt)", Ret: "Bool"},
		{Name: "weightProc", File: rb, Func: "Coordinator.getFreeShard", Sel: "assign:p:0", Params: "(o : Opt) (s : Rt)", Ret: "Int"},
		{Name: "weightUseHead", File: rb, Func: "Coordinator.getFreeShard", Sel: "if:3:5", Params: "(o : Opt)", Ret: "Bool"},
		{Name: "weightHead", File: rb, Func: "Coordinator.getFreeShard", Sel: "assign:p:1", Params: "(o : Opt) (s : Rt)", Ret: "Int"},
		// tryScaleDown
		{Name: "removable", File: rb, Func: "Coordinator.tryScaleDown", Sel: "if:0:4", Params: "(changeAble : Bool) (nScraping : Int) (s : Rt)", Ret: "Bool",
			Leaves: map[string]string{"len(s.scraping)": "nScraping"}},
		{Name: "sdSkipIdle", File: rb, Func: "Coordinator.tryScaleDown", Sel: "if:1:4", Params: "(s : Rt)", Ret: "Bool"},
		// shardCanBeIdle
		{Name: "cbiBlocked", File: rb, Func: "Coordinator.shardCanBeIdle", Sel: "if:0:4", Params: "(changeAble : Bool)", Ret: "Bool"},
		{Name: "cbiCandidate", File: rb, Func: "Coordinator.shardCanBeIdle", Sel: "if:1:4", Params: "(changeAble : Bool)", Ret: "Bool",
			Leaves: map[string]string{"s != src": "true"}},
		{Name: "cbiSpaceProc", File: rb, Func: "Coordinator.shardCanBeIdle", Sel: "assign:processSpace:0", Params: "(o : Opt) (s : Rt)", Ret: "Int"},
		{Name: "cbiSpaceHead", File: rb, Func: "Coordinator.shardCanBeIdle", Sel: "assign:headSpace:0", Params: "(o : Opt) (s : Rt)", Ret: "Int"},
		{Name: "cbiTarBlocks", File: rb, Func: "Coordinator.shardCanBeIdle", Sel: "if:2:4", Params: st, Ret: "Bool"},
		{Name: "cbiFit", File: rb, Func: "Coordinator.shardCanBeIdle", Sel: "if:3:4", Params: "(o : Opt) (sp : Space) (tar : St)", Ret: "Bool",
			Leaves: map[string]string{"availableSpaces[i].headSpace": "sp.head", "availableSpaces[i].processSpace": "sp.proc"}},
		{Name: "cbiSubHead", File: rb, Func: "Coordinator.shardCanBeIdle", Sel: "assign:availableSpaces[i].headSpace:0", Params: "(sp : Space) (tar : St)", Ret: "Int",
			Leaves: map[string]string{"availableSpaces[i].headSpace": "sp.head"}},
		{Name: "cbiSubProc", File: rb, Func: "Coordinator.shardCanBeIdle", Sel: "assign:availableSpaces[i].processSpace:0", Params: "(sp : Space) (tar : St)", Ret: "Int",
			Leaves: map[string]string{"availableSpaces[i].processSpace": "sp.proc"}},
		// shardBecomeIdle
		{Name: "sbiSkip", File: rb, Func: "Coordinator.shardBecomeIdle", Sel: "if:0:2", Params: st, Ret: "Bool"},
		{Name: "sbiSpaceHead", File: rb, Func: "Coordinator.shardBecomeIdle", Sel: "assign:headSpace:0", Params: st, Ret: "Int"},
		{Name: "sbiSpaceProc", File: rb, Func: "Coordinator.shardBecomeIdle", Sel: "assign:processSpace:0", Params: st, Ret: "Int"},
		// tryScaleUp
		{Name: "upBase", File: rb, Func: "Coordinator.tryScaleUp", Sel: "assign:exp:0", Params: "(nShards nChangeAble : Int)", Ret: "Int",
			Leaves: map[string]string{"len(health)": "nChangeAble", "len(shard)": "nShards"}},
		{Name: "upProc", File: rb, Func: "Coordinator.tryScaleUp", Sel: "assign:up:0", Params: "(o : Opt) (sp : Space)", Ret: "Int"},
		{Name: "upUseHead", File: rb, Func: "Coordinator.tryScaleUp", Sel: "if:0:2", Params: "(o : Opt) (sp : Space) (up : Int)", Ret: "Bool"},
		{Name: "upHead", File: rb, Func: "Coordinator.tryScaleUp", Sel: "assign:up:1", Params: "(o : Opt) (sp : Space)", Ret: "Int"},
		{Name: "upSum", File: rb, Func: "Coordinator.tryScaleUp", Sel: "assign:exp:1", Params: "(exp up : Int)", Ret: "Int"},
		{Name: "upFloor", File: rb, Func: "Coordinator.tryScaleUp", Sel: "if:1:2", Params: "(exp nShards : Int)", Ret: "Bool",
			Leaves: map[string]string{"len(shard)": "nShards"}},
		{Name: "upFloorTo", File: rb, Func: "Coordinator.tryScaleUp", Sel: "assign:exp:2", Params: "(nShards nChangeAble : Int)", Ret: "Int",
			Leaves: map[string]string{"len(health)": "nChangeAble", "len(shard)": "nShards"}},
		// runOnce
		{Name: "earlyMin", File: co, Func: "Coordinator.runOnce", Sel: "if:4:11", Params: "(o : Opt) (nShards nChangeAble : Int)", Ret: "Bool",
			Leaves: map[string]string{"len(shardsInfo)": "nShards", "len(changeAbleShards)": "nChangeAble"}},
		{Name: "earlyTo", File: co, Func: "Coordinator.runOnce", Sel: "call:repItem.ChangeScale:0:0", Params: "(o : Opt) (nShards nChangeAble : Int)", Ret: "Int",
			Leaves: map[string]string{"len(shardsInfo)": "nShards", "len(changeAbleShards)": "nChangeAble"}},
		{Name: "scaleInit", File: co, Func: "Coordinator.runOnce", Sel: "assign:scale:0", Params: "(nShards nChangeAble : Int)", Ret: "Int",
			Leaves: map[string]string{"len(shardsInfo)": "nShards", "len(changeAbleShards)": "nChangeAble"}},
		{Name: "needUp", File: co, Func: "Coordinator.runOnce", Sel: "if:6:11", Params: "(spaceIsZero : Bool)", Ret: "Bool",
			Leaves: map[string]string{"needSpace.isZero()": "spaceIsZero"}},
		{Name: "scaleDownOn", File: co, Func: "Coordinator.runOnce", Sel: "if:7:11", Params: "(o : Opt)", Ret: "Bool"},
		{Name: "clampMax", File: co, Func: "Coordinator.runOnce", Sel: "if:8:11", Params: "(o : Opt) (scale : Int)", Ret: "Bool"},
		{Name: "clampMaxTo", File: co, Func: "Coordinator.runOnce", Sel: "assign:scale:3", Params: "(o : Opt)", Ret: "Int"},
		{Name: "clampMin", File: co, Func: "Coordinator.runOnce", Sel: "if:9:11", Params: "(o : Opt) (scale : Int)", Ret: "Bool"},
		{Name: "clampMinTo", File: co, Func: "Coordinator.runOnce", Sel: "assign:scale:4", Params: "(o : Opt)", Ret: "Int"},
		{Name: "finalScaleArg", File: co, Func: "Coordinator.runOnce", Sel: "call:repItem.ChangeScale:1:0", Params: "(scale : Int)", Ret: "Int"},
		// types.go
		{Name: "spaceIsZero", File: "pkg/coordinator/types.go", Func: "space.isZero", Sel: "return:0", Params: "(s : Space)", Ret: "Bool",
			Leaves: map[string]string{"s.headSpace": "s.head", "s.processSpace": "s.proc"}},
		{Name: "spaceAddHead", File: "pkg/coordinator/types.go", Func: "space.add", Sel: "assign:s.headSpace:0", Params: "(s src : Space)", Ret: "Int",
			Leaves: map[string]string{"s.headSpace": "s.head", "src.headSpace": "src.head"}},
		{Name: "spaceAddProc", File: "pkg/coordinator/types.go", Func: "space.add", Sel: "assign:s.processSpace:0", Params: "(s src : Space)", Ret: "Int",
			Leaves: map[string]string{"s.processSpace": "s.proc", "src.processSpace": "src.proc"}},
		// shard.go
		{Name: "needUpdateLen", File: "pkg/shard/shard.go", Func: "Shard.needUpdate", Sel: "if:0:2", Params: "(nTargets nScraping : Int)", Ret: "Bool",
			Leaves: map[string]string{"len(targets)": "nTargets", "len(r.scraping)": "nScraping"}},
		{Name: "needUpdateEntry", File: "pkg/shard/shard.go", Func: "Shard.needUpdate", Sel: "if:1:2", Params: "(present : Bool) (sState tState : TState)", Ret: "Bool",
			Leaves: map[string]string{"r.scraping[k] == nil": "!present", "r.scraping[k].TargetState": "sState", "v.TargetState": "tState"}},
		// what an update request carries: the discovered target with these fields overwritten
		{Name: "requestAssigns", File: rb, Func: "updateScrapingTargets", Ret: "assigned"},
	}
}

const k8sm = "pkg/shard/kubernetes/shardmanager.go"
const k8sr = "pkg/shard/kubernetes/replicasmanager.go"

func k8sSites() []Site {
	cs := "shardManager.ChangeScale"
	return []Site{
		{Name: "scaleNoop", File: k8sm, Func: cs, Sel: "if:1:5", Params: "(isNil : Bool) (cur expect : Int)", Ret: "Bool",
			Leaves: map[string]string{"sts.Spec.Replicas == nil": "isNil", "*sts.Spec.Replicas": "cur"}},
		{Name: "oldOf", File: k8sm, Func: cs, Sel: "assign:old:0", Params: "(cur : Int)", Ret: "Int",
			Leaves: map[string]string{"*sts.Spec.Replicas": "cur"}},
		{Name: "newReplicas", File: k8sm, Func: cs, Sel: "assign:sts.Spec.Replicas:0", Params: "(expect : Int)", Ret: "Int",
			Leaves: map[string]string{"&expect": "expect"}},
		{Name: "pvcEnabled", File: k8sm, Func: cs, Sel: "if:3:5", Params: "(deletePVC : Bool)", Ret: "Bool",
			Leaves: map[string]string{"s.deletePVC": "deletePVC"}},
		{Name: "pvcInit", File: k8sm, Func: cs, Sel: "assign:i:0", Params: "(old : Int)", Ret: "Int"},
		{Name: "pvcCond", File: k8sm, Func: cs, Sel: "for:0", Params: "(i expect : Int)", Ret: "Bool"},
		{Name: "pvcNext", File: k8sm, Func: cs, Sel: "incdec:i:0", Params: "(i : Int)", Ret: "Int"},
		{Name: "pvcNameFmt", File: k8sm, Func: cs, Sel: "call:fmt.Sprintf:0:0", Ret: "text"},
		{Name: "pvcNameArg1", File: k8sm, Func: cs, Sel: "call:fmt.Sprintf:0:1", Ret: "text"},
		{Name: "pvcNameArg2", File: k8sm, Func: cs, Sel: "call:fmt.Sprintf:0:2", Ret: "text"},
		{Name: "pvcNameArg3", File: k8sm, Func: cs, Sel: "call:fmt.Sprintf:0:3", Ret: "text"},
		{Name: "podNameFmt", File: k8sm, Func: "shardManager.Shards", Sel: "call:fmt.Sprintf:0:0", Ret: "text"},
		{Name: "podNameArg1", File: k8sm, Func: "shardManager.Shards", Sel: "call:fmt.Sprintf:0:1", Ret: "text"},
		{Name: "podNameArg2", File: k8sm, Func: "shardManager.Shards", Sel: "call:fmt.Sprintf:0:2", Ret: "text"},
		{Name: "urlFmt", File: k8sm, Func: "shardManager.Shards", Sel: "call:fmt.Sprintf:1:0", Ret: "text"},
		{Name: "urlArg1", File: k8sm, Func: "shardManager.Shards", Sel: "call:fmt.Sprintf:1:1", Ret: "text"},
		{Name: "shardId", File: k8sm, Func: "shardManager.Shards", Sel: "call:shard.NewShard:0:0", Ret: "text"},
		{Name: "shardReady", File: k8sm, Func: "shardManager.Shards", Sel: "call:shard.NewShard:0:2", Params: "(ip : Nat)", Ret: "Bool",
			Leaves: map[string]string{"p.Status.PodIP": "ip", "\"\"": "0"}},
		{Name: "rollingSkip", File: k8sr, Func: "ReplicasManager.Replicas", Sel: "if:1:4", Params: "(replicas updated : Int)", Ret: "Bool",
			Leaves: map[string]string{"s.Status.Replicas": "replicas", "s.Status.UpdatedReplicas": "updated"}},
		{Name: "stampSet", File: k8sr, Func: "ReplicasManager.Replicas", Sel: "if:2:4", Params: "(ready replicas : Int) (stampNil : Bool)", Ret: "Bool",
			Leaves: map[string]string{"s.Status.ReadyReplicas": "ready", "s.Status.Replicas": "replicas", "g.stsUpdatedTime[s.Name] == nil": "stampNil"}},
		{Name: "stillWaiting", File: k8sr, Func: "ReplicasManager.Replicas", Sel: "if:3:4", Params: "(ready replicas elapsed : Int)", Ret: "Bool",
			Leaves: map[string]string{"s.Status.ReadyReplicas": "ready", "s.Status.Replicas": "replicas", "time.Now().Sub(*t)": "elapsed", "time.Minute * 2": "120", "time.Minute*2": "120"}},
	}
}

const sct = "pkg/sidecar/targets.go"
const scs = "pkg/sidecar/service.go"
const tst = "pkg/target/status.go"
const scp = "pkg/sidecar/proxy.go"

func sidecarSites() []Site {
	return []Site{
		{Name: "idleSet", File: sct, Func: "TargetsManager.updateIdleState", Sel: "if:0:2", Params: "(nStatus : Int) (idleNil : Bool)", Ret: "Bool",
			Leaves: map[string]string{"len(t.targets.Status)": "nStatus", "t.targets.IdleAt == nil": "idleNil"}},
		{Name: "idleClear", File: sct, Func: "TargetsManager.updateIdleState", Sel: "if:1:2", Params: "(nStatus : Int)", Ret: "Bool",
			Leaves: map[string]string{"len(t.targets.Status)": "nStatus"}},
		{Name: "statusIsNew", File: sct, Func: "TargetsManager.updateStatus", Sel: "if:0:2", Params: "(present : Bool)", Ret: "Bool",
			Leaves: map[string]string{"t.targets.Status[tar.Hash] == nil": "!present"}},
		{Name: "freshSeries", File: sct, Func: "TargetsManager.updateStatus", Sel: "call:target.NewScrapeStatus:0:0", Params: "(tarSeries tarTotal : Int)", Ret: "Int",
			Leaves: map[string]string{"tar.Series": "tarSeries", "tar.TotalSeries": "tarTotal"}},
		{Name: "freshTotal", File: sct, Func: "TargetsManager.updateStatus", Sel: "call:target.NewScrapeStatus:0:1", Params: "(tarSeries tarTotal : Int)", Ret: "Int",
			Leaves: map[string]string{"tar.Series": "tarSeries", "tar.TotalSeries": "tarTotal"}},
		{Name: "resetCond", File: sct, Func: "TargetsManager.updateStatus", Sel: "if:1:2", Params: "(cur req : TState)", Ret: "Bool",
			Leaves: map[string]string{"status[tar.Hash].TargetState": "cur", "tar.TargetState": "req",
				"target.StateNormal": "TState.normal", "target.StateInTransfer": "TState.inTransfer"}},
		{Name: "resetTo", File: sct, Func: "TargetsManager.updateStatus", Sel: "assign:status[tar.Hash].ScrapeTimes:0", Params: "", Ret: "Nat"},
		{Name: "stateTo", File: sct, Func: "TargetsManager.updateStatus", Sel: "assign:status[tar.Hash].TargetState:0", Params: "(req : TState)", Ret: "TState",
			Leaves: map[string]string{"tar.TargetState": "req"}},
		// service.go runtimeInfo
		{Name: "rtMinAdd", File: scs, Func: "Service.runtimeInfo", Sel: "assign:min:1", Params: "(min rSeries : Int)", Ret: "Int",
			Leaves: map[string]string{"r.Series": "rSeries"}},
		{Name: "rtTotalAdd", File: scs, Func: "Service.runtimeInfo", Sel: "assign:total:1", Params: "(total rTotal : Int)", Ret: "Int",
			Leaves: map[string]string{"r.TotalSeries": "rTotal"}},
		{Name: "rtFloor", File: scs, Func: "Service.runtimeInfo", Sel: "if:1:2", Params: "(series min : Int)", Ret: "Bool"},
		{Name: "rtFloorTo", File: scs, Func: "Service.runtimeInfo", Sel: "assign:series:0", Params: "(min : Int)", Ret: "Int"},
		{Name: "rtHead", File: scs, Func: "Service.runtimeInfo", Sel: "assign:HeadSeries:0", Params: "(series total : Int)", Ret: "Int"},
		{Name: "rtProc", File: scs, Func: "Service.runtimeInfo", Sel: "assign:ProcessSeries:0", Params: "(series total : Int)", Ret: "Int"},
		{Name: "rtIdle", File: scs, Func: "Service.runtimeInfo", Sel: "assign:IdleStartAt:0", Ret: "text"},
		// status.go
		{Name: "windowRoom", File: tst, Func: "ScrapeStatus.UpdateScrapeResult", Sel: "if:0:1", Params: "(n : Int)", Ret: "Bool",
			Leaves: map[string]string{"len(t.lastSeries)": "n"}},
		{Name: "windowDrop", File: tst, Func: "ScrapeStatus.UpdateScrapeResult", Sel: "call:append:1:1", Ret: "text"},
		{Name: "meanOf", File: tst, Func: "ScrapeStatus.UpdateScrapeResult", Sel: "assign:t.Series:0", Params: "(total n : Int)", Ret: "Int",
			Leaves: map[string]string{"len(t.lastSeries)": "n"}},
		{Name: "totalOf", File: tst, Func: "ScrapeStatus.UpdateScrapeResult", Sel: "assign:t.TotalSeries:0", Params: "(rTotal : Int)", Ret: "Int",
			Leaves: map[string]string{"r.Total": "rTotal"}},
		{Name: "pushedValue", File: tst, Func: "ScrapeStatus.UpdateScrapeResult", Sel: "call:append:0:1", Params: "(rScraped : Int)", Ret: "Int",
			Leaves: map[string]string{"r.ScrapedTotal": "rScraped"}},
		{Name: "errIsNil", File: tst, Func: "ScrapeStatus.SetScrapeErr", Sel: "if:0:1", Params: "(errNil : Bool)", Ret: "Bool",
			Leaves: map[string]string{"err == nil": "errNil"}},
		{Name: "healthOk", File: tst, Func: "ScrapeStatus.SetScrapeErr", Sel: "assign:t.Health:0", Params: "", Ret: "Health",
			Leaves: map[string]string{"scrape.HealthGood": "Health.good", "scrape.HealthBad": "Health.bad"}},
		{Name: "healthErr", File: tst, Func: "ScrapeStatus.SetScrapeErr", Sel: "assign:t.Health:1", Params: "", Ret: "Health",
			Leaves: map[string]string{"scrape.HealthGood": "Health.good", "scrape.HealthBad": "Health.bad"}},
		// scraper.go StatisticSeries
		{Name: "statTotalNext", File: "pkg/scrape/scraper.go", Func: "StatisticSeries", Sel: "incdec:result.Total:0", Params: "(total : Nat)", Ret: "Nat",
			Leaves: map[string]string{"result.Total": "total"}},
		{Name: "statScrapedNext", File: "pkg/scrape/scraper.go", Func: "StatisticSeries", Sel: "incdec:result.ScrapedTotal:0", Params: "(scraped : Nat)", Ret: "Nat",
			Leaves: map[string]string{"result.ScrapedTotal": "scraped"}},
		{Name: "statMetricTotalNext", File: "pkg/scrape/scraper.go", Func: "StatisticSeries", Sel: "incdec:result.MetricsTotal[n].Total:0", Params: "(total : Nat)", Ret: "Nat",
			Leaves: map[string]string{"result.MetricsTotal[n].Total": "total"}},
		{Name: "statMetricScrapedNext", File: "pkg/scrape/scraper.go", Func: "StatisticSeries", Sel: "incdec:result.MetricsTotal[n].Scraped:0", Params: "(scraped : Nat)", Ret: "Nat",
			Leaves: map[string]string{"result.MetricsTotal[n].Scraped": "scraped"}},
		{Name: "statKeep", File: "pkg/scrape/scraper.go", Func: "StatisticSeries", Sel: "if:1:2", Params: "(kept : Bool)", Ret: "Bool",
			Leaves: map[string]string{"newSets != nil": "kept"}},
		// proxy.go
		{Name: "timesNext", File: scp, Func: "Proxy.ServeHTTP", Sel: "incdec:tar.ScrapeTimes:0", Params: "(times : Nat)", Ret: "Nat",
			Leaves: map[string]string{"tar.ScrapeTimes": "times"}},
	}
}

func storeSites() []Site {
	return []Site{
		{Name: "saveCalls", File: sct, Func: "TargetsManager.saveTargets", Ret: "calls:ioutil.,os.,json."},
		{Name: "loadCalls", File: sct, Func: "TargetsManager.Load", Ret: "calls:ioutil.,os.,json.,path."},
		{Name: "storeFileName", File: sct, Sel: "const:storeFileName", Ret: "text"},
		{Name: "oldStoreFileName", File: sct, Sel: "const:oldVersionStoreFileName", Ret: "text"},
		{Name: "tmpName", File: sct, Func: "TargetsManager.saveTargets", Sel: "assign:tmp:0", Ret: "text"},
		{Name: "storePathExpr", File: sct, Func: "TargetsManager.storePath", Sel: "return:0", Ret: "text"},
	}
}

const rdr = "pkg/scrape/reader.go"
const scr = "pkg/scrape/scraper.go"

func proxySites() []Site {
	sh := "Proxy.ServeHTTP"
	return []Site{
		{Name: "noJob", File: scp, Func: sh, Sel: "if:0:12", Params: "(jobKnown : Bool)", Ret: "Bool",
			Leaves: map[string]string{"jobInfo == nil": "!jobKnown"}},
		{Name: "noJobStatus", File: scp, Func: sh, Sel: "call:w.WriteHeader:0:0", Ret: "text"},
		{Name: "badHashStatus", File: scp, Func: sh, Sel: "call:w.WriteHeader:1:0", Ret: "text"},
		{Name: "deferFailed", File: scp, Func: sh, Sel: "if:2:12", Params: "(failed : Bool)", Ret: "Bool",
			Leaves: map[string]string{"scrapErr != nil": "failed"}},
		{Name: "failStatus", File: scp, Func: sh, Sel: "call:w.WriteHeader:2:0", Ret: "text"},
		{Name: "deferStopped", File: scp, Func: sh, Sel: "if:4:12", Params: "(stopped : Bool)", Ret: "Bool",
			Leaves: map[string]string{"stopReason != \"\"": "stopped"}},
		{Name: "stopStatus", File: scp, Func: sh, Sel: "call:w.WriteHeader:3:0", Ret: "text"},
		{Name: "touches", File: scp, Func: sh, Sel: "if:5:12", Params: "(assigned : Bool)", Ret: "Bool",
			Leaves: map[string]string{"tar != nil": "assigned"}},
		{Name: "aborts", File: scp, Func: sh, Sel: "if:6:12", Params: "(failed : Bool) (forwarded : Nat)", Ret: "Bool",
			Leaves: map[string]string{"scrapErr != nil": "failed"}},
		{Name: "abortWith", File: scp, Func: sh, Sel: "call:panic:0:0", Ret: "text"},
		{Name: "teeOn", File: scp, Func: sh, Sel: "if:7:12", Params: "(stopped : Bool)", Ret: "Bool",
			Leaves: map[string]string{"stopReason == \"\"": "!stopped"}},
		{Name: "recordsResult", File: scp, Func: sh, Sel: "if:11:12", Params: "(assigned : Bool)", Ret: "Bool",
			Leaves: map[string]string{"tar != nil": "assigned"}},
		{Name: "readerLoop", File: rdr, Func: "wrappedReader.Read", Sel: "for:0", Params: "(wTotal n : Nat)", Ret: "Bool"},
		{Name: "readerSlice", File: rdr, Func: "wrappedReader.Read", Sel: "call:w.Write:0:0", Ret: "text"},
		{Name: "readerAdvance", File: rdr, Func: "wrappedReader.Read", Sel: "assign:wTotal:1", Params: "(wTotal wn : Nat)", Ret: "Nat"},
		{Name: "readerWriteFails", File: rdr, Func: "wrappedReader.Read", Sel: "if:1:2", Params: "(werrNil : Bool)", Ret: "Bool",
			Leaves: map[string]string{"werr != nil": "!werrNil"}},
		{Name: "badStatus", File: scr, Func: "Scraper.RequestTo", Sel: "if:3:6", Params: "(code : Nat)", Ret: "Bool",
			Leaves: map[string]string{"s.HTTPResponse.StatusCode": "code", "http.StatusOK": "200"}},
	}
}

const dsc = "pkg/discovery/discovery.go"
const dtr = "pkg/discovery/translate.go"
const exl = "pkg/explore/explore.go"

func discSites() []Site {
	return []Site{
		{Name: "reloadKeeps", File: dsc, Func: "TargetsDiscovery.ApplyConfig", Sel: "if:0:1", Params: "(exist : Bool)", Ret: "Bool"},
		{Name: "jobUnknown", File: dsc, Func: "TargetsDiscovery.translateTargets", Sel: "if:0:3", Params: "(configured : Bool)", Ret: "Bool",
			Leaves: map[string]string{"cfg == nil": "!configured"}},
		{Name: "isActive", File: dsc, Func: "TargetsDiscovery.translateTargets", Sel: "if:1:3", Params: "(nLabels nDiscovered : Nat)", Ret: "Bool",
			Leaves: map[string]string{"tar.PromTarget.Labels().Len()": "nLabels", "tar.PromTarget.DiscoveredLabels().Len()": "nDiscovered"}},
		{Name: "isDropped", File: dsc, Func: "TargetsDiscovery.translateTargets", Sel: "if:2:3", Params: "(nLabels nDiscovered : Nat)", Ret: "Bool",
			Leaves: map[string]string{"tar.PromTarget.Labels().Len()": "nLabels", "tar.PromTarget.DiscoveredLabels().Len()": "nDiscovered"}},
		{Name: "targetFails", File: dtr, Func: "targetsFromGroup", Sel: "if:1:5", Params: "(errNil : Bool)", Ret: "Bool",
			Leaves: map[string]string{"err != nil": "!errNil"}},
		{Name: "targetExists", File: dtr, Func: "targetsFromGroup", Sel: "if:2:5", Params: "(hasLabels hasOrig : Bool)", Ret: "Bool",
			Leaves: map[string]string{"lbls != nil": "hasLabels", "origLabels != nil": "hasOrig"}},
		{Name: "dedupApplies", File: dtr, Func: "targetsFromGroup", Sel: "if:3:5", Params: "(hasLabels : Bool)", Ret: "Bool",
			Leaves: map[string]string{"lbls != nil": "hasLabels"}},
		{Name: "dedupSkips", File: dtr, Func: "targetsFromGroup", Sel: "if:4:5", Params: "(seen : Bool)", Ret: "Bool",
			Leaves: map[string]string{"exists[hash]": "seen"}},
		{Name: "exploreKeepsJob", File: exl, Func: "Explore.ApplyConfig", Sel: "if:0:1", Params: "(jobListed : Bool)", Ret: "Bool",
			Leaves: map[string]string{"types.FindString(v.job, jobs...)": "jobListed"}},
		{Name: "getUnknown", File: exl, Func: "Explore.Get", Sel: "if:0:2", Params: "(known : Bool)", Ret: "Bool",
			Leaves: map[string]string{"r == nil": "!known"}},
		{Name: "getStarts", File: exl, Func: "Explore.Get", Sel: "if:1:2", Params: "(exploring : Bool)", Ret: "Bool",
			Leaves: map[string]string{"r.exploring": "exploring"}},
		{Name: "probeFailed", File: exl, Func: "Explore.Run", Sel: "if:1:3", Params: "(errNil : Bool)", Ret: "Bool",
			Leaves: map[string]string{"err != nil": "!errNil"}},
		{Name: "retryRequeues", File: exl, Func: "Explore.Run", Sel: "if:2:3", Params: "(listedId : Option Nat) (tarId : Nat)", Ret: "Bool",
			Leaves: map[string]string{"e.targets[hash]": "listedId", "tar": "(some tarId)", "nil": "none"}},
		{Name: "exploreKeepsEntry", File: exl, Func: "Explore.UpdateTargets", Sel: "if:0:1", Params: "(known : Bool)", Ret: "Bool",
			Leaves: map[string]string{"e.targets[hash] != nil": "known"}},
	}
}

const inj = "pkg/sidecar/injector.go"

func injectSites() []Site {
	return []Site{
		{Name: "jobAssigns", File: inj, Func: "Injector.injectJobs", Ret: "assigned"},
		{Name: "groupAssigns", File: inj, Func: "target2targetGroup", Ret: "assigned"},
		{Name: "marshalCalls", File: inj, Func: "Injector.marshal", Ret: "calls:strings.,yaml.,fmt."},
		{Name: "sectionSkipped", File: inj, Func: "Injector.marshal", Sel: "if:3:6", Params: "(key : Nat)", Ret: "Bool",
			Leaves: map[string]string{`r.Key != "alerting"`: "(key != 0)", `r.Key != "remote_write"`: "(key != 1)", `r.Key != "remote_read"`: "(key != 2)"}},
		{Name: "sectionMatches", File: inj, Func: "Injector.marshal", Sel: "if:4:6", Params: "(outKey rawKey : Nat)", Ret: "Bool",
			Leaves: map[string]string{"out[k].Key == r.Key": "(outKey == rawKey)"}},
		{Name: "paramJobName", File: inj, Sel: "const:paramJobName", Ret: "text"},
		{Name: "paramHash", File: inj, Sel: "const:paramHash", Ret: "text"},
		{Name: "paramScheme", File: inj, Sel: "const:paramScheme", Ret: "text"},
		{Name: "selfMonitorOff", File: inj, Func: "Injector.injectSelfMonitor", Sel: "if:0:2", Params: "(enabled : Bool)", Ret: "Bool",
			Leaves: map[string]string{"i.option.ShardMonitorEnable": "enabled"}},
	}
}

const trl = "pkg/discovery/translate.go"

// the kvass-specific steps between discovery and the proxied request (C02)
func chainSites() []Site {
	return []Site{
		{Name: "withoutParamAssigns", File: trl, Func: "labelsWithoutConfigParam", Ret: "assigned"},
		{Name: "withoutParamCalls", File: trl, Func: "labelsWithoutConfigParam", Ret: "calls:types.,append"},
		{Name: "markInvalidAssigns", File: trl, Func: "supportInvalidLabelName", Ret: "assigned"},
		{Name: "markInvalidCalls", File: trl, Func: "supportInvalidLabelName", Ret: "calls:model.,append"},
		{Name: "invalidPrefix", File: "pkg/target/target.go", Sel: "const:PrefixForInvalidLabelName", Ret: "text"},
		{Name: "translateAssigns", File: "pkg/sidecar/proxy.go", Func: "translateURL", Ret: "assigned"},
		{Name: "translateCalls", File: "pkg/sidecar/proxy.go", Func: "translateURL", Ret: "calls:vs.,u."},
		{Name: "shippedLabels", File: trl, Func: "targetsFromGroup", Ret: "calls:supportInvalidLabelName,labelsWithoutConfigParam,targetHash,scrape."},
	}
}

func modules() []Module {
	return []Module{
		{Path: "Kvass/Gen/Cfg.lean", NS: "Kvass.Gen.Cfg", Imports: []string{"Kvass.Types"}, Global: map[string]string{}, Sites: nil, Pin: []string{"pkg/prom/config.go:*"}},
		{Path: "Kvass/Gen/Chain.lean", NS: "Kvass.Gen.Chain", Imports: []string{"Kvass.Types"}, Global: map[string]string{}, Sites: chainSites(), Pin: []string{"pkg/target/target.go:*"}},
		{Path: "Kvass/Gen/Inject.lean", NS: "Kvass.Gen.Inject", Imports: []string{"Kvass.Types"}, Global: map[string]string{}, Sites: injectSites(), Pin: []string{"pkg/sidecar/injector.go:*"}},
		{Path: "Kvass/Gen/Disc.lean", NS: "Kvass.Gen.Disc", Imports: []string{"Kvass.Types"}, Global: map[string]string{}, Sites: discSites(), Pin: []string{"pkg/discovery/discovery.go:*", "pkg/discovery/translate.go:*", "pkg/explore/explore.go:*", "pkg/scrape/manager.go:*", "cmd/kvass/coordinator.go:*"}},
		{Path: "Kvass/Gen/Proxy.lean", NS: "Kvass.Gen.Proxy", Imports: []string{"Kvass.Types"}, Global: map[string]string{}, Sites: proxySites(), Pin: []string{"pkg/sidecar/proxy.go:*", "pkg/scrape/reader.go:*", "pkg/scrape/scraper.go:Scraper.RequestTo", "pkg/scrape/scraper.go:Scraper.ParseResponse", "pkg/scrape/scraper.go:Scraper.WithRawWriter", "pkg/scrape/scraper.go:StatisticSeries"}},
		{Path: "Kvass/Gen/Store.lean", NS: "Kvass.Gen.Store", Imports: []string{"Kvass.Types"}, Global: map[string]string{}, Sites: storeSites(), Pin: []string{"pkg/target/target.go:*", "cmd/kvass/sidecar.go:*"}},
		{Path: "Kvass/Gen/Sidecar.lean", NS: "Kvass.Gen.Sidecar", Imports: []string{"Kvass.Types"}, Global: map[string]string{}, Sites: sidecarSites(), Pin: []string{"pkg/sidecar/targets.go:*", "pkg/target/status.go:*", "pkg/sidecar/service.go:*", "pkg/scrape/scraper.go:StatisticSeries"}},
		{Path: "Kvass/Gen/K8s.lean", NS: "Kvass.Gen.K8s", Imports: []string{"Kvass.Types"}, Global: map[string]string{}, Sites: k8sSites(), Pin: []string{"pkg/shard/kubernetes/shardmanager.go:*", "pkg/shard/kubernetes/replicasmanager.go:*"}},
		{Path: "Kvass/Gen/Coord.lean", NS: "Kvass.Gen", Imports: []string{"Kvass.Types"}, Global: coordGlobal, Sites: coordSites(), Pin: []string{"pkg/coordinator/rebalance.go:*", "pkg/coordinator/coordinator.go:Coordinator.runOnce", "pkg/shard/shard.go:*", "pkg/coordinator/types.go:*"}},
	}
}
