module kvassextract

go 1.17
