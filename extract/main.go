// extract: regenerates Kvass/Gen/*.lean from the Go sources of /repo.
//
// Every *site* is a Go expression (an if-condition, the right-hand side of an assignment, a call
// argument, a constant, a table literal) addressed by file, function and position.  The expression is
// translated node by node into a Lean term over the model's records; identifiers and selectors are
// mapped through a per-site leaf table.  Anything outside the translated subset, a missing function
// or a position that does not exist is an error: the tie is then reported broken, never passed.
package main

import (
	"bytes"
	"flag"
	"fmt"
	"go/ast"
	"go/parser"
	"go/printer"
	"go/token"
	"hash/fnv"
	"math"
	"os"
	"path/filepath"
	"sort"
	"strconv"
	"strings"
)

type Site struct {
	Name   string
	File   string
	Func   string
	Sel    string
	Params string
	Ret    string
	Leaves map[string]string
	Note   string
}

var fset = token.NewFileSet()
var files = map[string]*ast.File{}

func parse(repo, rel string) (*ast.File, error) {
	if f, ok := files[rel]; ok {
		return f, nil
	}
	f, err := parser.ParseFile(fset, filepath.Join(repo, rel), nil, 0)
	if err != nil {
		return nil, err
	}
	files[rel] = f
	return f, nil
}

func exprString(e ast.Node) string {
	var b bytes.Buffer
	_ = printer.Fprint(&b, fset, e)
	return strings.Join(strings.Fields(b.String()), " ")
}

func findFunc(f *ast.File, name string) *ast.FuncDecl {
	recv := ""
	fn := name
	if i := strings.Index(name, "."); i >= 0 {
		recv, fn = name[:i], name[i+1:]
	}
	for _, d := range f.Decls {
		fd, ok := d.(*ast.FuncDecl)
		if !ok || fd.Name.Name != fn {
			continue
		}
		if recv == "" && fd.Recv == nil {
			return fd
		}
		if recv != "" && fd.Recv != nil && len(fd.Recv.List) == 1 {
			t := fd.Recv.List[0].Type
			if s, ok := t.(*ast.StarExpr); ok {
				t = s.X
			}
			if id, ok := t.(*ast.Ident); ok && id.Name == recv {
				return fd
			}
		}
	}
	return nil
}

type trErr struct{ msg string }

func (e trErr) Error() string { return e.msg }

type translator struct {
	leaves map[string]string
	params map[string]bool
}

// binder names of a Lean parameter string such as "(o : Opt) (a b : Int)"
func paramNames(params string) map[string]bool {
	m := map[string]bool{}
	for _, grp := range strings.Split(params, "(") {
		if i := strings.Index(grp, ":"); i >= 0 {
			for _, n := range strings.Fields(grp[:i]) {
				m[n] = true
			}
		}
	}
	return m
}

func (t *translator) tr(e ast.Expr) string {
	s := exprString(e)
	if v, ok := t.leaves[s]; ok {
		return v
	}
	switch x := e.(type) {
	case *ast.ParenExpr:
		return t.tr(x.X)
	case *ast.BinaryExpr:
		a, b := t.tr(x.X), t.tr(x.Y)
		switch x.Op {
		case token.LAND:
			return fmt.Sprintf("(%s && %s)", a, b)
		case token.LOR:
			return fmt.Sprintf("(%s || %s)", a, b)
		case token.EQL:
			return fmt.Sprintf("decide (%s = %s)", a, b)
		case token.NEQ:
			return fmt.Sprintf("!decide (%s = %s)", a, b)
		case token.LSS:
			return fmt.Sprintf("decide (%s < %s)", a, b)
		case token.LEQ:
			return fmt.Sprintf("decide (%s <= %s)", a, b)
		case token.GTR:
			return fmt.Sprintf("decide (%s > %s)", a, b)
		case token.GEQ:
			return fmt.Sprintf("decide (%s >= %s)", a, b)
		case token.ADD:
			return fmt.Sprintf("(%s + %s)", a, b)
		case token.SUB:
			return fmt.Sprintf("(%s - %s)", a, b)
		case token.MUL:
			return fmt.Sprintf("(%s * %s)", a, b)
		case token.QUO:
			return fmt.Sprintf("(Int.tdiv %s %s)", a, b)
		}
		panic(trErr{"unsupported operator " + x.Op.String() + " in " + s})
	case *ast.UnaryExpr:
		switch x.Op {
		case token.NOT:
			return "!" + t.tr(x.X)
		case token.SUB:
			return fmt.Sprintf("(-%s)", t.tr(x.X))
		}
		panic(trErr{"unsupported unary " + x.Op.String() + " in " + s})
	case *ast.BasicLit:
		switch x.Kind {
		case token.INT:
			return x.Value
		case token.FLOAT:
			f, err := strconv.ParseFloat(x.Value, 64)
			if err != nil {
				panic(trErr{"bad float " + x.Value})
			}
			tenths := math.Round(f * 10)
			if math.Abs(tenths/10-f) > 1e-12 || tenths < 0 {
				panic(trErr{"rate literal is not a non-negative multiple of 0.1: " + x.Value})
			}
			return strconv.Itoa(int(tenths))
		case token.STRING:
			return x.Value
		}
	case *ast.Ident:
		if t.params[x.Name] {
			return x.Name
		}
	case *ast.CallExpr:
		if id, ok := x.Fun.(*ast.Ident); ok {
			switch id.Name {
			case "int32", "int64", "int", "uint", "uint64", "float64":
				if len(x.Args) == 1 {
					return t.tr(x.Args[0])
				}
			case "seriesWithRate":
				if len(x.Args) == 2 {
					return fmt.Sprintf("swr %s %s", t.tr(x.Args[0]), t.rate(x.Args[1]))
				}
			}
		}
	}
	panic(trErr{"no translation for `" + s + "` (" + fmt.Sprintf("%T", e) + ")"})
}

// a rate argument: float literal, integer literal (1 == 1.0) or a leaf
func (t *translator) rate(e ast.Expr) string {
	if v, ok := t.leaves[exprString(e)]; ok {
		return v
	}
	if bl, ok := e.(*ast.BasicLit); ok {
		f, err := strconv.ParseFloat(bl.Value, 64)
		if err == nil {
			tenths := math.Round(f * 10)
			if math.Abs(tenths/10-f) < 1e-12 && tenths >= 0 {
				return strconv.Itoa(int(tenths))
			}
		}
	}
	panic(trErr{"rate is not a literal multiple of 0.1: " + exprString(e)})
}

// collect nodes of a function in source order
func ifConds(fd *ast.FuncDecl) []ast.Expr {
	var out []ast.Expr
	ast.Inspect(fd.Body, func(n ast.Node) bool {
		if s, ok := n.(*ast.IfStmt); ok {
			out = append(out, s.Cond)
		}
		return true
	})
	return out
}

func forConds(fd *ast.FuncDecl) []ast.Expr {
	var out []ast.Expr
	ast.Inspect(fd.Body, func(n ast.Node) bool {
		if s, ok := n.(*ast.ForStmt); ok && s.Cond != nil {
			out = append(out, s.Cond)
		}
		return true
	})
	return out
}

func assignsTo(fd *ast.FuncDecl, v string) []ast.Expr {
	var out []ast.Expr
	ast.Inspect(fd.Body, func(n ast.Node) bool {
		switch s := n.(type) {
		case *ast.AssignStmt:
			for i, l := range s.Lhs {
				if exprString(l) == v && i < len(s.Rhs) && len(s.Lhs) == len(s.Rhs) {
					if s.Tok == token.ASSIGN || s.Tok == token.DEFINE {
						out = append(out, s.Rhs[i])
					} else {
						// x += e  etc: keep the statement text as a pseudo-expression via BinaryExpr
						op := map[token.Token]token.Token{token.ADD_ASSIGN: token.ADD, token.SUB_ASSIGN: token.SUB}[s.Tok]
						if op != 0 {
							out = append(out, &ast.BinaryExpr{X: l, Op: op, Y: s.Rhs[i]})
						}
					}
				}
			}
		case *ast.ValueSpec:
			for i, nm := range s.Names {
				if nm.Name == v && i < len(s.Values) {
					out = append(out, s.Values[i])
				}
			}
		case *ast.KeyValueExpr:
			if exprString(s.Key) == v {
				out = append(out, s.Value)
			}
		}
		return true
	})
	return out
}

// i-- / i++ statements on variable v, as pseudo expressions (v - 1) / (v + 1)
func incDecs(fd *ast.FuncDecl, v string) []ast.Expr {
	var out []ast.Expr
	ast.Inspect(fd.Body, func(n ast.Node) bool {
		if s, ok := n.(*ast.IncDecStmt); ok && exprString(s.X) == v {
			op := token.ADD
			if s.Tok == token.DEC {
				op = token.SUB
			}
			out = append(out, &ast.BinaryExpr{X: s.X, Op: op, Y: &ast.BasicLit{Kind: token.INT, Value: "1"}})
		}
		return true
	})
	return out
}

func callsTo(fd *ast.FuncDecl, fn string) []*ast.CallExpr {
	var out []*ast.CallExpr
	ast.Inspect(fd.Body, func(n ast.Node) bool {
		if c, ok := n.(*ast.CallExpr); ok && exprString(c.Fun) == fn {
			out = append(out, c)
		}
		return true
	})
	return out
}

func returns(fd *ast.FuncDecl) []ast.Expr {
	var out []ast.Expr
	ast.Inspect(fd.Body, func(n ast.Node) bool {
		if r, ok := n.(*ast.ReturnStmt); ok && len(r.Results) == 1 {
			out = append(out, r.Results[0])
		}
		return true
	})
	return out
}

func nth(list []ast.Expr, n int, what string) ast.Expr {
	if n < 0 || n >= len(list) {
		panic(trErr{fmt.Sprintf("%s: index %d out of range (%d found)", what, n, len(list))})
	}
	return list[n]
}

func locate(repo string, s Site) ast.Expr {
	f, err := parse(repo, s.File)
	if err != nil {
		panic(trErr{err.Error()})
	}
	parts := strings.Split(s.Sel, ":")
	if parts[0] == "const" {
		for _, d := range f.Decls {
			gd, ok := d.(*ast.GenDecl)
			if !ok {
				continue
			}
			for _, sp := range gd.Specs {
				vs, ok := sp.(*ast.ValueSpec)
				if !ok {
					continue
				}
				for i, nm := range vs.Names {
					if nm.Name == parts[1] && i < len(vs.Values) {
						return vs.Values[i]
					}
				}
			}
		}
		panic(trErr{"constant " + parts[1] + " not found in " + s.File})
	}
	fd := findFunc(f, s.Func)
	if fd == nil {
		panic(trErr{"function " + s.Func + " not found in " + s.File})
	}
	atoi := func(x string) int { n, _ := strconv.Atoi(x); return n }
	switch parts[0] {
	case "if":
		conds := ifConds(fd)
		if len(parts) == 3 && atoi(parts[2]) != len(conds) {
			panic(trErr{fmt.Sprintf("%s: expected %s if-statements, found %d", s.Func, parts[2], len(conds))})
		}
		return nth(conds, atoi(parts[1]), s.Func+" if")
	case "for":
		return nth(forConds(fd), atoi(parts[1]), s.Func+" for")
	case "assign":
		return nth(assignsTo(fd, parts[1]), atoi(parts[2]), s.Func+" assign "+parts[1])
	case "call":
		cs := callsTo(fd, parts[1])
		n := atoi(parts[2])
		if n >= len(cs) {
			panic(trErr{fmt.Sprintf("%s: call %s #%d not found", s.Func, parts[1], n)})
		}
		a := atoi(parts[3])
		if a >= len(cs[n].Args) {
			panic(trErr{fmt.Sprintf("%s: call %s #%d has no argument %d", s.Func, parts[1], n, a)})
		}
		return cs[n].Args[a]
	case "return":
		return nth(returns(fd), atoi(parts[1]), s.Func+" return")
	case "incdec":
		return nth(incDecs(fd, parts[1]), atoi(parts[2]), s.Func+" incdec "+parts[1])
	}
	panic(trErr{"bad selector " + s.Sel})
}

// table of {a, b} float pairs: composite literal assigned to variable
func tablePairs(repo string, s Site, fieldA, fieldB string) string {
	e := locate(repo, s)
	cl, ok := e.(*ast.CompositeLit)
	if !ok {
		panic(trErr{"table site is not a composite literal: " + exprString(e)})
	}
	t := &translator{leaves: map[string]string{}}
	var rows []string
	for _, el := range cl.Elts {
		row, ok := el.(*ast.CompositeLit)
		if !ok {
			panic(trErr{"table row is not a composite literal"})
		}
		vals := map[string]string{}
		for _, kv := range row.Elts {
			k, ok := kv.(*ast.KeyValueExpr)
			if !ok {
				panic(trErr{"table row without keys"})
			}
			vals[exprString(k.Key)] = t.rate(k.Value)
		}
		a, okA := vals[fieldA]
		b, okB := vals[fieldB]
		if !okA || !okB || len(vals) != 2 {
			panic(trErr{"table row fields differ from " + fieldA + "/" + fieldB})
		}
		rows = append(rows, fmt.Sprintf("(%s, %s)", a, b))
	}
	return "[" + strings.Join(rows, ", ") + "]"
}

func merged(global, local map[string]string) map[string]string {
	m := map[string]string{}
	for k, v := range global {
		m[k] = v
	}
	for k, v := range local {
		m[k] = v
	}
	return m
}

type Module struct {
	Path    string // output path relative to lean dir
	NS      string
	Imports []string
	Global  map[string]string
	Sites   []Site
	Raw     func(repo string) []string // extra generated lines
	Pin     []string                   // further "file:Func" whose source text is fingerprinted
}

// fingerprints of the source text (go/printer, comments dropped) of every function a module's
// sites refer to, plus Module.Pin: any edit of a modelled function changes one of them
func digests(repo string, m Module) (string, []string) {
	var errs []string
	seen := map[string]bool{}
	var keys []string
	add := func(file, fn string) {
		if fn == "" {
			return
		}
		k := file + ":" + fn
		if !seen[k] {
			seen[k] = true
			keys = append(keys, k)
		}
	}
	for _, s := range m.Sites {
		add(s.File, s.Func)
	}
	for _, p := range m.Pin {
		i := strings.LastIndex(p, ":")
		if p[i+1:] != "*" {
			add(p[:i], p[i+1:])
			continue
		}
		f, err := parse(repo, p[:i])
		if err != nil {
			errs = append(errs, "digest "+p+": "+err.Error())
			continue
		}
		for _, d := range f.Decls {
			fd, ok := d.(*ast.FuncDecl)
			if !ok {
				continue
			}
			name := fd.Name.Name
			if fd.Recv != nil && len(fd.Recv.List) == 1 {
				t := fd.Recv.List[0].Type
				if st, ok := t.(*ast.StarExpr); ok {
					t = st.X
				}
				if id, ok := t.(*ast.Ident); ok {
					name = id.Name + "." + name
				}
			}
			add(p[:i], name)
		}
	}
	sort.Strings(keys)
	var b strings.Builder
	b.WriteString("-- GENERATED by /verif/extract from the Go sources; do not edit.\n")
	b.WriteString("namespace " + m.NS + "Src\n\n")
	b.WriteString("/-- FNV-1a (64 bit) of the printed source of every modelled function -/\ndef digests : List (String × String) := [\n")
	for i, k := range keys {
		j := strings.LastIndex(k, ":")
		f, err := parse(repo, k[:j])
		hex := ""
		if err != nil {
			errs = append(errs, "digest "+k+": "+err.Error())
		} else if fd := findFunc(f, k[j+1:]); fd == nil {
			errs = append(errs, "digest "+k+": function not found")
		} else {
			var buf strings.Builder
			_ = printer.Fprint(&buf, token.NewFileSet(), fd)
			h := fnv.New64a()
			_, _ = h.Write([]byte(buf.String()))
			hex = fmt.Sprintf("%016x", h.Sum64())
		}
		sep := ","
		if i == len(keys)-1 {
			sep = ""
		}
		fmt.Fprintf(&b, "  (%s, %s)%s\n", strconv.Quote(k), strconv.Quote(hex), sep)
	}
	b.WriteString("]\n\nend " + m.NS + "Src\n")
	return b.String(), errs
}

func generate(repo string, m Module) (string, []string) {
	var b strings.Builder
	var errs []string
	b.WriteString("-- GENERATED by /verif/extract from the Go sources; do not edit.\n")
	for _, im := range m.Imports {
		b.WriteString("import " + im + "\n")
	}
	b.WriteString("namespace " + m.NS + "\nopen Kvass\n\n")
	for _, s := range m.Sites {
		func() {
			defer func() {
				if r := recover(); r != nil {
					if te, ok := r.(trErr); ok {
						errs = append(errs, fmt.Sprintf("site %s (%s %s %s): %s", s.Name, s.File, s.Func, s.Sel, te.msg))
						return
					}
					panic(r)
				}
			}()
			var body string
			if strings.HasPrefix(s.Ret, "table:") {
				fs := strings.Split(s.Ret, ":")
				body = tablePairs(repo, s, fs[1], fs[2])
				fmt.Fprintf(&b, "-- %s %s %s\ndef %s : List (Rate × Rate) := %s\n", s.File, s.Func, s.Sel, s.Name, body)
				return
			}
			if s.Ret == "assigned" {
				// left-hand sides assigned in the function, in source order, plus the number of if-statements
				f, err := parse(repo, s.File)
				if err != nil {
					panic(trErr{err.Error()})
				}
				fd := findFunc(f, s.Func)
				if fd == nil {
					panic(trErr{"function " + s.Func + " not found in " + s.File})
				}
				var rows []string
				ast.Inspect(fd.Body, func(n ast.Node) bool {
					if as, ok := n.(*ast.AssignStmt); ok && as.Tok == token.ASSIGN {
						for i, l := range as.Lhs {
							rhs := ""
							if i < len(as.Rhs) {
								rhs = exprString(as.Rhs[i])
								if len(rhs) > 60 {
									rhs = rhs[:60]
								}
							}
							rows = append(rows, fmt.Sprintf("(%s, %s)", strconv.Quote(exprString(l)), strconv.Quote(rhs)))
						}
					}
					return true
				})
				fmt.Fprintf(&b, "-- %s %s: assignments in source order\ndef %s : List (String × String) := [%s]\ndef %sIfs : Nat := %d\n", s.File, s.Func, s.Name, strings.Join(rows, ", "), s.Name, len(ifConds(fd)))
				return
			}
			if strings.HasPrefix(s.Ret, "calls:") {
				f, err := parse(repo, s.File)
				if err != nil {
					panic(trErr{err.Error()})
				}
				fd := findFunc(f, s.Func)
				if fd == nil {
					panic(trErr{"function " + s.Func + " not found in " + s.File})
				}
				prefixes := strings.Split(strings.TrimPrefix(s.Ret, "calls:"), ",")
				var rows []string
				ast.Inspect(fd.Body, func(n ast.Node) bool {
					c, ok := n.(*ast.CallExpr)
					if !ok {
						return true
					}
					fn := exprString(c.Fun)
					for _, p := range prefixes {
						if strings.HasPrefix(fn, p) {
							var args []string
							for _, a := range c.Args {
								args = append(args, strconv.Quote(exprString(a)))
							}
							rows = append(rows, fmt.Sprintf("(%s, [%s])", strconv.Quote(fn), strings.Join(args, ", ")))
						}
					}
					return true
				})
				fmt.Fprintf(&b, "-- %s %s: calls in source order\ndef %s : List (String × List String) := [%s]\n", s.File, s.Func, s.Name, strings.Join(rows, ", "))
				return
			}
			e := locate(repo, s)
			if s.Ret == "text" {
				fmt.Fprintf(&b, "-- %s %s %s\ndef %s : String := %s\n", s.File, s.Func, s.Sel, s.Name, strconv.Quote(exprString(e)))
				return
			}
			t := &translator{leaves: merged(m.Global, s.Leaves), params: paramNames(s.Params)}
			body = t.tr(e)
			fmt.Fprintf(&b, "-- %s %s %s: %s\ndef %s %s : %s := %s\n", s.File, s.Func, s.Sel, exprString(e), s.Name, s.Params, s.Ret, body)
		}()
	}
	if m.Raw != nil {
		func() {
			defer func() {
				if r := recover(); r != nil {
					if te, ok := r.(trErr); ok {
						errs = append(errs, "raw section: "+te.msg)
						return
					}
					panic(r)
				}
			}()
			for _, l := range m.Raw(repo) {
				b.WriteString(l + "\n")
			}
		}()
	}
	b.WriteString("\nend " + m.NS + "\n")
	return b.String(), errs
}

func main() {
	repo := flag.String("repo", "/repo", "repository root")
	out := flag.String("out", "/verif/lean", "lean project dir")
	list := flag.String("list", "", "list if-conditions of file:func")
	flag.Parse()
	if *list != "" {
		p := strings.SplitN(*list, ":", 2)
		f, err := parse(*repo, p[0])
		if err != nil {
			fmt.Println(err)
			os.Exit(1)
		}
		var names []string
		for _, d := range f.Decls {
			if fd, ok := d.(*ast.FuncDecl); ok && (len(p) == 1 || fd.Name.Name == p[1] || strings.HasSuffix(p[1], "."+fd.Name.Name)) {
				names = append(names, fd.Name.Name)
				fmt.Printf("func %s\n", fd.Name.Name)
				for i, c := range ifConds(fd) {
					fmt.Printf("  if:%d  %s\n", i, exprString(c))
				}
			}
		}
		sort.Strings(names)
		return
	}
	failed := false
	for _, m := range modules() {
		text, errs := generate(*repo, m)
		for _, e := range errs {
			fmt.Println("EXTRACT-ERROR " + e)
			failed = true
		}
		// source fingerprints go to a file of their own: only the pins (and through them the property
		// modules) import it, never the model or the driver
		dtext, derrs := digests(*repo, m)
		for _, e := range derrs {
			fmt.Println("EXTRACT-ERROR " + e)
			failed = true
		}
		dpath := filepath.Join(*out, strings.TrimSuffix(m.Path, ".lean")+"Src.lean")
		if oldd, _ := os.ReadFile(dpath); string(oldd) != dtext {
			_ = os.MkdirAll(filepath.Dir(dpath), 0755)
			_ = os.WriteFile(dpath, []byte(dtext), 0644)
			fmt.Println("updated " + strings.TrimSuffix(m.Path, ".lean") + "Src.lean")
		}
		path := filepath.Join(*out, m.Path)
		if len(errs) > 0 {
			// keep the last good file so that the driver still builds; the tie is reported broken
			continue
		}
		old, _ := os.ReadFile(path)
		if string(old) != text {
			_ = os.MkdirAll(filepath.Dir(path), 0755)
			if err := os.WriteFile(path, []byte(text), 0644); err != nil {
				fmt.Println("EXTRACT-ERROR write " + path + ": " + err.Error())
				failed = true
			}
			fmt.Println("updated " + m.Path)
		}
	}
	if failed {
		os.Exit(1)
	}
}
